package main

import "strings"

type AuthSpec struct {
	Origin, Client string
	Challenge      []byte
	Allow          [][]byte
	UV             string
	Cred           *KeyPair
	CredID         []byte
	Owner          []byte
	PK             []byte
	UserHandle     []byte
	Flags          byte
	Counter        uint32
	Ext            []byte
	CDExtra        M
	Dev            map[string]bool
	Store          []M
	Get            string
	Trailing       []byte
	Var            int
	RPID           []byte // when set: the RP ID the authenticator hashes (otherwise the host of Origin)
	Inert          M      // option members the verification must not depend on (rpId, timeout, extensions)
}

func (s *AuthSpec) d(n string) bool { return s.Dev[n] }

func newAuthSpec(r *RNG, origin string, cred *KeyPair, credID, owner, pk []byte) *AuthSpec {
	s := &AuthSpec{Origin: origin, Client: origin, Challenge: r.Bytes(16 + r.Intn(32)), Cred: cred, CredID: credID, Owner: owner, PK: pk,
		UserHandle: owner, Flags: 0x01, Counter: uint32(r.U64() >> uint(r.Intn(33))), Dev: map[string]bool{}, Var: -1,
		Store: []M{{"id": hx(credID), "owner": hx(owner), "pk": hx(pk)}}}
	if r.Bool() {
		s.Flags |= 0x04
	}
	if r.P(1, 3) {
		s.Flags |= byte(r.Intn(4)) << 3
	}
	switch r.Intn(3) {
	case 0:
		s.Allow = [][]byte{credID}
	case 1:
		s.Allow = [][]byte{r.Bytes(8), credID, r.Bytes(16)}
	}
	s.UV = pick(r, []string{"", "preferred", "discouraged", "required"})
	if s.UV == "required" {
		s.Flags |= 0x04
	}
	if r.P(1, 5) {
		s.Flags |= 0x80
		// authenticator extension outputs as getAssertion produces them (hmac-secret and credBlob are BYTE STRINGS here, booleans at
		// registration): nothing the ceremony asked for, nothing it may stumble over
		s.Ext = pick(r, [][]byte{cborMap(cborText("appid"), []byte{0xf5}), cborMap(cborText("hmac-secret"), cborBytes(r.Bytes(pick(r, []int{48, 80})))),
			cborMap(cborText("credBlob"), cborBytes(r.Bytes(1+r.Intn(32)))), cborMap(cborText("hmac-secret"), cborBytes(r.Bytes(48)), cborText("credBlob"), cborBytes(nil), cborText("thirdPartyPayment"), []byte{0xf5}),
			cborMap(cborText("uvm"), cborArray(cborArray(cborInt(2), cborInt(4), cborInt(2)))), cborMap()})
	}
	if r.P(1, 3) {
		s.CDExtra = benignCDExtra(r)
	}
	if r.P(1, 3) {
		s.Client = benignClientOrigin(r, origin)
	}
	if r.P(1, 2) {
		s.Inert = inertOptions(r, origin)
	}
	return s
}

// inertOptions: members of the request / creation options that the relying party hands to the client and that verification does not
// consult: the RP ID is the host of the CONFIGURED origin whatever options.rpId / options.rp.id say
func inertOptions(r *RNG, origin string) M {
	h := hostOf(origin)
	m := M{"rpId": hx([]byte(pick(r, []string{h, "evil.example", parentOrigin(h)[len("https://"):], "", "login." + h, h + "."}))), "timeoutMs": r.Intn(100000)}
	if r.Bool() {
		m["ext"] = true
	}
	// (creation options only) the attestation conveyance preference handed to the client: a wish, not a policy
	m["attestation"] = hx([]byte(pick(r, []string{"", "none", "indirect", "direct", "enterprise"})))
	// the client extension outputs that come with the credential (appid, credProps, uvm, largeBlob, unknown ones): not consulted
	m["clientExt"] = r.Intn(7)
	return m
}

// benignClientOrigin: an acceptable client origin other than the RP origin itself (subdomain, other scheme, other port)
func benignClientOrigin(r *RNG, origin string) string {
	h := hostOf(origin)
	switch r.Intn(3) {
	case 0:
		if len(origin) > 0 && origin[len(origin)-1] != ']' && h != "192.168.1.10" && h != "2001:db8::1" {
			return pick(r, []string{"https://sub." + h, "https://a.b." + h, "https://x." + h + ":8443"})
		}
	case 1:
		if len(origin) > 8 && origin[:8] == "https://" {
			return "http://" + origin[len("https://"):]
		}
	case 2:
		if h != "2001:db8::1" {
			return "https://" + h + ":9443"
		}
	}
	return origin
}

// parentOrigin: the origin of the parent domain of origin's host (never acceptable)
func parentOrigin(h string) string {
	for i := 0; i < len(h); i++ {
		if h[i] == '.' {
			return "https://" + h[i+1:]
		}
	}
	return "https://parent.example"
}

func buildAssertion(r *RNG, s *AuthSpec) M {
	cd := ClientDataSpec{Type: "webauthn.get", Challenge: b64u(s.Challenge), Origin: s.Client, Extra: s.CDExtra, Shuffle: r.Bool()}
	if s.d("cd.type") {
		cd.Type = variant(r, s.Var, []string{"webauthn.create", "", "webauthn.get ", "Webauthn.get", "webauthn.ge", "get"})
	}
	if s.d("cd.challengeLengthVariant") {
		// the right challenge text followed by 256 or 512 more characters, or by NUL characters
		cd.Challenge = b64u(s.Challenge) + pick(r, []string{strings.Repeat("A", 256), strings.Repeat("-", 512), "\x00", "\x00\x00\x00", strings.Repeat("\x00", 256)})
	}
	if s.d("cd.challenge") {
		cd.Challenge = variant(r, s.Var, append([]string{b64u(append(append([]byte{}, s.Challenge...), 0)), stdB64(s.Challenge) + "=", "", b64u(s.Challenge[1:]), b64u(s.Challenge) + "A", hx(s.Challenge)}, nonCanonicalB64(b64u(s.Challenge))...))
	}
	if s.d("cd.origin") {
		h := hostOf(s.Origin)
		cd.Origin = variant(r, s.Var, []string{"https://evil.example", "https://evil" + h, "https://" + h + ".evil.com", "https://evil.com/" + h, "https://" + h + "@evil.com", "", "https://evil.com?" + h, "https://evil.com#" + h, "null", "https://www.not" + h, "https://x" + h + ":443", "https://login.evil" + h, "https://attacker.test.", "https://" + h + ".", "https://login.attacker.test.:8443", "https://" + h + "..", "https://evil.example./", parentOrigin(h)})
	}
	if s.d("cd.memberAbsent") {
		// one of the three members is not in the document at all, or is null: the decoded member is the empty string, whatever a
		// decoder that reuses its target may have left there from an earlier ceremony
		cd.Absent = map[string]string{variant(r, s.Var, []string{"type", "challenge", "origin"}): pick(r, []string{"omit", "omit", "null"})}
	}
	cdj := cd.JSON(r)
	if s.d("cd.malformed") {
		// not one JSON object: trailing data after the object (the signature / hash covers exactly these bytes), truncated, another value
		if r.Bool() {
			cdj = append(append([]byte{}, cdj...), []byte(pick(r, []string{"x", "{}", " garbage", ",", "}", "\x00", "null", " []"}))...)
		} else {
			cdj = pick(r, [][]byte{[]byte("{"), []byte("[]"), nil, []byte(`{"type":1}`), cdj[:len(cdj)-1]})
		}
	}
	ad := AuthDataSpec{RPIDHash: sha([]byte(hostOf(s.Origin))), Flags: s.Flags, Counter: s.Counter, Ext: s.Ext}
	if s.RPID != nil {
		ad.RPIDHash = sha(s.RPID)
	}
	if s.d("ad.rpIdHash") {
		alts := [][]byte{sha([]byte(s.Origin)), sha([]byte("evil.example")), r.Bytes(32), sha([]byte(hostOf(s.Origin) + ".")), make([]byte, 32),
			sha(nil), sha([]byte("https://example.com/appid.json")), sha([]byte("https://" + hostOf(s.Origin)))}
		if r.Bool() {
			// with client extension outputs that name the legacy AppID mechanism (which the options may or may not have asked for)
			if s.Inert == nil {
				s.Inert = inertOptions(r, s.Origin)
			}
			s.Inert["clientExt"] = pick(r, []int{2, 5, 2})
			s.Inert["ext"] = r.Bool()
		}
		if s.Inert == nil {
			s.Inert = inertOptions(r, s.Origin)
		}
		if id := unhx(s.Inert["rpId"].(string)); string(id) != hostOf(s.Origin) {
			alts = append(alts, sha(id), sha(id)) // the hash of what options.rpId says
		}
		ad.RPIDHash = variant(r, s.Var, alts)
	}
	if s.d("ad.noUP") {
		ad.Flags &^= 0x01
	}
	if s.d("ad.noUV") {
		ad.Flags &^= 0x04
	}
	authData := append(ad.Bytes(), s.Trailing...)
	signed := append(append([]byte{}, authData...), sha(cdj)...)
	signer := s.Cred
	if s.d("sig.otherKey") {
		signer = genKeyPair(r, s.Cred.Alg)
		if signer.Kind == "rsa" {
			for signer.RSA == s.Cred.RSA {
				signer = genKeyPair(r, s.Cred.Alg)
			}
		}
	}
	if s.d("sig.otherMessage") {
		signed = append([]byte{}, signed...)
		signed[len(signed)-1] ^= 1
	}
	if s.d("sig.authDataOnly") {
		signed = authData
	}
	sig := signer.SignAs(s.Cred.Alg, signed)
	if s.d("sig.bitflip") {
		sig[r.Intn(len(sig))] ^= 1 << uint(r.Intn(8))
	}
	if s.d("sig.empty") {
		sig = nil
	}
	if s.d("tamper.authData") {
		authData = append([]byte{}, authData...)
		authData[33+r.Intn(4)] ^= 1 << uint(r.Intn(8)) // counter bits: layout stays valid
	}
	if s.d("tamper.cdj") {
		cdj = append([]byte{}, cdj...)
		cdj = append(cdj, ' ') // still valid JSON, different hash
	}
	rawID := s.CredID
	if s.d("id.unknown") {
		rawID = r.Bytes(len(s.CredID) + 1)
	}
	uh := s.UserHandle
	if s.d("userHandle.foreign") {
		uh = append(append([]byte{}, s.Owner...), 'x')
	}
	if s.d("userHandle.missing") {
		uh = nil
	}
	if s.d("userHandle.lengthVariant") {
		// the owner's handle followed by more bytes: zeros, 256 or 512 arbitrary bytes (a comparison that pads, or that folds the
		// length difference into one byte, takes these for the owner's handle); or the owner's handle cut to its first bytes
		uh = pick(r, [][]byte{append(append([]byte{}, s.Owner...), 0), append(append([]byte{}, s.Owner...), make([]byte, 3)...),
			append(append([]byte{}, s.Owner...), r.Bytes(256)...), append(append([]byte{}, s.Owner...), r.Bytes(512)...), s.Owner[:len(s.Owner)/2]})
	}
	if s.d("userHandle.empty") {
		uh = []byte{}
	}
	allow := s.Allow
	if s.d("allow.excludes") {
		// ids that are NOT the credential's id (redrawn on the rare collision: ids can be a single byte)
		other := r.Bytes(len(s.CredID))
		for string(other) == string(s.CredID) {
			other = r.Bytes(len(s.CredID) + 1)
		}
		other2 := r.Bytes(4)
		for string(other2) == string(s.CredID) {
			other2 = r.Bytes(5)
		}
		allow = [][]byte{other, other2}
	}
	if s.d("allow.lengthVariant") {
		// the list names ids that are the credential's id cut short or extended (by zeros, by 256 bytes): none of them is the credential's id
		allow = [][]byte{append(append([]byte{}, s.CredID...), 0), append(append([]byte{}, s.CredID...), r.Bytes(256)...), s.CredID[:len(s.CredID)-1]}
	}
	var allowHex []string
	for _, a := range allow {
		allowHex = append(allowHex, hx(a))
	}
	if allowHex == nil {
		allowHex = []string{}
	}
	var allowTypes []string
	if len(allowHex) >= 2 && r.P(1, 3) {
		// descriptors of a type this library does not know stand in front of the credential's own descriptor
		for i := range allowHex {
			t := "public-key"
			if i == 0 || (i < len(allowHex)-1 && r.Bool()) {
				t = pick(r, []string{"public-key-v2", "", "password"})
			}
			allowTypes = append(allowTypes, t)
		}
	}
	op := M{"op": "authenticate", "origin": hx([]byte(s.Origin)), "challenge": hx(s.Challenge), "allow": allowHex, "allowTypes": allowTypes, "uv": hx([]byte(s.UV)),
		"rawId": hx(rawID), "cdj": hx(cdj), "authData": hx(authData), "sig": hx(sig), "userHandle": hx(uh), "store": s.Store}
	if s.Get != "" {
		op["get"] = s.Get
	}
	if s.Inert != nil {
		op["inert"] = s.Inert
	}
	if uh == nil {
		op["userHandleNil"] = true // absent / null in the JSON: a nil slice, not an empty one
	}
	return op
}
