package main

import (
	"fmt"
	"strings"

	"github.com/pomerium/webauthn"
)

// Correspondence of the Lean encoding/json model for client data (Model/Json.lean) with
// AuthenticatorAssertionResponse.UnmarshalClientData / AuthenticatorAttestationResponse.UnmarshalClientData.

func init() {
	executors["json.clientData"] = func(c *Ctx, stream string, op M) {
		raw := unhx(op["raw"].(string))
		model := c.Call(M{"op": "json.clientData", "raw": op["raw"]})
		delete(model, "id")
		impl := guard(func() M {
			cd, err := (&webauthn.AuthenticatorAssertionResponse{ClientDataJSON: raw}).UnmarshalClientData()
			cd2, err2 := (&webauthn.AuthenticatorAttestationResponse{ClientDataJSON: raw}).UnmarshalClientData()
			if (err == nil) != (err2 == nil) || (err == nil && *cd != *cd2 && (cd.TokenBinding == nil) != (cd2.TokenBinding == nil)) {
				return M{"ok": "assertion and attestation responses disagree"}
			}
			if err != nil {
				return M{"ok": false}
			}
			return M{"ok": true, "type": hx([]byte(cd.Type)), "challenge": hx([]byte(cd.Challenge)), "origin": hx([]byte(cd.Origin))}
		})
		class := "error"
		if ok, _ := impl["ok"].(bool); ok {
			class = "ok"
		}
		if dv, ok := op["_dev"].(string); ok {
			class += "/" + dv
		}
		c.Compare(stream, op, impl, model, class, len(raw) > 1)
	}
	run := func(c *Ctx, stream, dev string, s []byte) {
		executors["json.clientData"](c, stream, M{"op": "json.clientData", "raw": hx(s), "_dev": dev})
	}

	// ----- generators -----
	genString := func(r *RNG) string {
		// a JSON string literal (with quotes): plain, escaped, unicode, surrogates, invalid UTF-8
		var sb strings.Builder
		sb.WriteByte('"')
		n := r.Intn(8)
		for i := 0; i < n; i++ {
			switch r.Intn(16) {
			case 0:
				sb.WriteString(pick(r, []string{`\"`, `\\`, `\/`, `\b`, `\f`, `\n`, `\r`, `\t`}))
			case 1:
				sb.WriteString(fmt.Sprintf(`\u%04x`, r.Intn(0x10000)))
			case 2:
				sb.WriteString(fmt.Sprintf(`\u%04X\u%04x`, 0xD800+r.Intn(0x400), 0xDC00+r.Intn(0x400))) // valid pair
			case 3:
				sb.WriteString(fmt.Sprintf(`\u%04x`, 0xD800+r.Intn(0x800))) // lone surrogate
			case 4:
				sb.WriteString(fmt.Sprintf(`\u%04x\u%04x`, 0xD800+r.Intn(0x400), r.Intn(0x10000))) // high surrogate + anything
			case 5:
				sb.WriteString(pick(r, []string{"é", "ſ", "K", "日本", "😀", " ", "�"}))
			case 6:
				sb.Write([]byte{byte(0x80 + r.Intn(0x80))}) // stray byte ≥ 0x80
			case 7:
				sb.Write(pick(r, [][]byte{{0xc0, 0x80}, {0xe0, 0x80, 0x80}, {0xed, 0xa0, 0x80}, {0xf4, 0x90, 0x80, 0x80}, {0xf8, 0x88, 0x80, 0x80, 0x80}, {0xe2, 0x82}, {0xc3}, {0xf0, 0x9f, 0x98}}))
			case 8:
				sb.WriteString(pick(r, []string{"webauthn.get", "webauthn.create", "https://example.com", "AAAA"}))
			default:
				sb.WriteByte(byte(0x20 + r.Intn(0x5f)))
				if b := sb.String(); b[len(b)-1] == '"' || b[len(b)-1] == '\\' {
					sb.WriteByte('"') // keep it a valid escape or an early close; both are interesting
				}
			}
		}
		sb.WriteByte('"')
		return sb.String()
	}
	numbers := []string{"0", "-0", "1", "-1", "10", "1.5", "1e5", "1E+5", "1e-5", "0.0", "123456789012345678901234567890", "1.0e0", "01", "1.", ".5", "-", "+1", "1e", "1e+", "0x10", "1_0", "Infinity", "NaN", "00", "-01", "1.e1"}
	var genValue func(r *RNG, depth int) string
	genValue = func(r *RNG, depth int) string {
		switch r.Intn(12) {
		case 0:
			return "null"
		case 1:
			return pick(r, []string{"true", "false"})
		case 2:
			return pick(r, numbers[:12])
		case 3:
			return pick(r, numbers)
		case 4:
			if depth > 3 {
				return "[]"
			}
			n := r.Intn(4)
			parts := []string{}
			for i := 0; i < n; i++ {
				parts = append(parts, genValue(r, depth+1))
			}
			return "[" + strings.Join(parts, pick(r, []string{",", " , ", ",\n"})) + "]"
		case 5:
			if depth > 3 {
				return "{}"
			}
			n := r.Intn(4)
			parts := []string{}
			for i := 0; i < n; i++ {
				parts = append(parts, pick(r, []string{`"status"`, `"id"`, `"ID"`, `"ſtatus"`, `"Status"`, `"x"`, genString(r)})+pick(r, []string{":", " : "})+genValue(r, depth+1))
			}
			return "{" + strings.Join(parts, ",") + "}"
		case 6:
			return pick(r, []string{"tru", "True", "nul", "NULL", "fals", "nil", "undefined", "'x'", ""})
		default:
			return genString(r)
		}
	}
	keyVariants := map[string][]string{
		"type":         {`"type"`, `"Type"`, `"TYPE"`, `"tYpE"`, `"type"`, `"type"`, `"type "`, `"typ"`, `"types"`, `"ty\u0000pe"`, `"tỳpe"`},
		"challenge":    {`"challenge"`, `"Challenge"`, `"CHALLENGE"`, `"challenge"`, `"chalenge"`},
		"origin":       {`"origin"`, `"Origin"`, `"ORIGIN"`, `"origin"`, `"0rigin"`, `"orıgin"`, `"orİgin"`},
		"crossOrigin":  {`"crossOrigin"`, `"crossorigin"`, `"CROSSORIGIN"`, `"croſſOrigin"`, `"croſsOrigin"`, `"cross_origin"`},
		"tokenBinding": {`"tokenBinding"`, `"tokenbinding"`, `"TOKENBINDING"`, "\"toKenBinding\"", `"toKenBinding"`, `"token-binding"`},
	}
	ws := func(r *RNG) string { return pick(r, []string{"", "", "", " ", "\n", "\t", "\r\n", "  "}) }
	genDoc := func(r *RNG) string {
		var members []string
		names := []string{"type", "challenge", "origin", "crossOrigin", "tokenBinding"}
		n := 2 + r.Intn(6)
		for i := 0; i < n; i++ {
			var k string
			switch r.Intn(8) {
			case 0:
				k = genString(r)
			case 1:
				k = pick(r, []string{`"extra"`, `""`, `"other_keys_can_be_added_here"`, `"androidPackageName"`})
			default:
				nm := pick(r, names)
				if r.P(2, 3) {
					k = keyVariants[nm][0]
				} else {
					k = pick(r, keyVariants[nm])
				}
			}
			var v string
			switch {
			case r.P(1, 2) && (strings.Contains(strings.ToLower(k), "type") || strings.Contains(strings.ToLower(k), "chal") || strings.Contains(strings.ToLower(k), "rigin")) && !strings.Contains(strings.ToLower(k), "cross"):
				v = genString(r)
			case strings.Contains(strings.ToLower(k), "cross") && r.P(2, 3):
				v = pick(r, []string{"true", "false", "null"})
			case strings.Contains(strings.ToLower(k), "binding") && r.P(2, 3):
				v = pick(r, []string{`{"status":"supported"}`, `{"status":"present","id":"AAAA"}`, "null", `{}`, `{"status":null}`, `{"status":1}`, `{"id":[]}`, `{"STATUS":"x","ſtatus":true}`, `{"unknown":{"a":[1,2,{"b":null}]}}`})
			default:
				v = genValue(r, 0)
			}
			members = append(members, ws(r)+k+ws(r)+":"+ws(r)+v+ws(r))
		}
		doc := ws(r) + "{" + strings.Join(members, ",") + "}" + ws(r)
		return doc
	}

	register("C01",
		Stream{"json.structured", func(c *Ctx) {
			n := c.N(4000, 300000)
			for i := 0; i < n; i++ {
				d := genDoc(c.R)
				switch c.R.Intn(12) {
				case 0:
					d = string(mutate(c.R, []byte(d)))
				case 1:
					d = d[:c.R.Intn(len(d)+1)]
				case 2:
					d = d + pick(c.R, []string{"x", "{}", ",", "\x00", "]", " null"})
				case 3:
					d = genValue(c.R, 0) // a top-level value of any type
				}
				run(c, "json.structured", "generated", []byte(d))
			}
		}},
		Stream{"json.honest", func(c *Ctx) {
			// what the ceremonies' own generators write
			n := c.N(300, 20000)
			for i := 0; i < n; i++ {
				cd := ClientDataSpec{Type: pick(c.R, []string{"webauthn.get", "webauthn.create"}), Challenge: b64u(c.R.Bytes(16 + c.R.Intn(32))), Origin: pick(c.R, honestOrigins), Shuffle: c.R.Bool()}
				if c.R.Bool() {
					cd.Extra = M{"crossOrigin": c.R.Bool()}
				}
				if c.R.P(1, 3) {
					if cd.Extra == nil {
						cd.Extra = M{}
					}
					cd.Extra["tokenBinding"] = M{"status": "supported"}
				}
				run(c, "json.honest", "honest", cd.JSON(c.R))
			}
		}},
		Stream{"json.depth", func(c *Ctx) {
			for _, d := range []int{1, 2, 100, 9998, 9999, 10000, 10001, 10002, 20000} {
				open, clos := strings.Repeat("[", d), strings.Repeat("]", d)
				run(c, "json.depth", fmt.Sprintf("array-depth-%d", d), []byte(open+clos))
				run(c, "json.depth", fmt.Sprintf("member-depth-%d", d), []byte(`{"type":"webauthn.get","x":`+open+clos+`}`))
				run(c, "json.depth", fmt.Sprintf("object-depth-%d", d), []byte(strings.Repeat(`{"a":`, d)+"1"+strings.Repeat("}", d)))
				run(c, "json.depth", fmt.Sprintf("unclosed-depth-%d", d), []byte(open))
			}
		}},
		Stream{"json.exhaustive", func(c *Ctx) {
			alphabet := []string{"{", "}", "[", "]", ":", ",", "\"", "\\", "u", "0", "1", "-", ".", "e", "t", "n", " ", "a"}
			maxLen := c.N(4, 5)
			count := 0
			var rec func(prefix string, d int)
			rec = func(prefix string, d int) {
				run(c, "json.exhaustive", "exhaustive", []byte(prefix))
				count++
				if d == 0 {
					return
				}
				for _, a := range alphabet {
					rec(prefix+a, d-1)
				}
			}
			rec("", maxLen)
			c.Res.mu.Lock()
			c.Res.Exhaustive = append(c.Res.Exhaustive, fmt.Sprintf("client data JSON: all %d strings of length <= %d over an 18-symbol alphabet of JSON punctuation and literal letters", count, maxLen))
			c.Res.mu.Unlock()
		}},
	)
}
