package main

// C04: "violate exactly one requirement, re-sign everything with the attacker's own attestation key".
var formatRequirementDevs = map[string][]string{
	"packed-x5c":        {"x5c.v1", "x5c.isCA", "x5c.noC", "x5c.noO", "x5c.badOU", "x5c.noCN", "x5c.emptyC", "x5c.emptyO", "x5c.emptyCN", "x5c.aaguidMismatch", "x5c.aaguidCritical", "x5c.aaguidMalformed", "x5c.aaguidShortZeroPadded", "x5c.empty", "x5c.leafSecond", "alg.uint64Wrapped"},
	"packed-self":       {"self.algMismatch", "alg.uint64Wrapped", "sig.otherKey"},
	"fido-u2f":          {"u2f.twoCerts", "u2f.emptyX5cEntries", "u2f.noCerts", "u2f.certP384", "u2f.certRSA", "u2f.credNotEC2"},
	"tpm":               {"tpm.badMagic", "tpm.badType", "tpm.wrongName", "tpm.nameAlgMismatch", "tpm.nameAlgForeignSameSize", "x5c.leafSecond", "tpm.nameHandle", "tpm.nameEmpty", "tpm.pubAreaOtherKey", "tpm.v1", "tpm.isCA", "tpm.noEKU", "tpm.ekuAnyOnly", "tpm.noSAN", "tpm.sanUnknownVendor", "tpm.sanNoModel", "tpm.sanNoVersion", "tpm.sanNoManufacturer", "tpm.extraDataOther", "tpm.extraDataShort", "tpm.noCerts", "key.rsaExponentAliased", "alg.uint64Wrapped"},
	"android-key":       {"ak.certKeyOther", "ak.certKeyOtherKind", "certKey.sameXYOtherCurve", "ak.allAppsSW", "ak.allAppsTEE", "ak.noSign", "ak.originOther", "ak.challengeOther", "ak.challengeShort", "ak.noExtension", "x5c.leafSecond", "key.rsaExponentAliased", "alg.uint64Wrapped"},
	"apple":             {"apple.certKeyOther", "apple.certKeyOtherKind", "certKey.sameXYOtherCurve", "apple.nonceOther", "apple.nonceShort", "apple.noNonce", "x5c.leafSecond", "key.rsaExponentAliased"},
	"android-safetynet": {"sn.wrongHost", "sn.untrustedChain", "sn.nonceOther", "sn.nonceShort", "sn.noX5c", "sn.nonceNotBase64", "sn.leafSecond", "sn.critUnknown", "sn.payloadAltered", "sn.unsigned"},
}

func attestCase(c *Ctx, stream, format string, devs []string, viaCeremony bool) {
	attestCaseVar(c, stream, format, devs, viaCeremony, -1)
}

func attestCaseVar(c *Ctx, stream, format string, devs []string, viaCeremony bool, v int) {
	r := c.R
	s := newRegSpec(r, format, pick(r, credAlgsFor(format)))
	s.AttAlg = pick(r, attAlgsFor(format))
	s.Var = v
	name := ""
	for _, d := range devs {
		s.Dev[d] = true
		if name != "" {
			name += "+"
		}
		name += d
	}
	b := buildRegistration(r, s)
	if viaCeremony {
		op := b.Op()
		op["_dev"] = name
		executors["register"](c, stream, op)
		truth(c, stream+".truth", op, len(devs) == 0)
		return
	}
	op := b.AttestOp(pick(r, []string{"", fmtID(format)}))
	op["_dev"] = name
	op["_expectOK"] = len(devs) == 0
	executors["attest"](c, stream, op)
}

func init() {
	register("C04",
		Stream{"req.single", func(c *Ctx) {
			reps := c.N(2, 60)
			for rep := 0; rep < reps; rep++ {
				for f, devs := range formatRequirementDevs {
					for _, dv := range devs {
						attestCase(c, "req."+f+"."+dv, f, []string{dv}, rep%2 == 1)
					}
				}
			}
		}},
		Stream{"req.androidKey.schemaEncoding", func(c *Ctx) {
			// key descriptions encoded as the published schema says, by the harness's independent DER encoder
			n := c.N(4, 60)
			for i := 0; i < n; i++ {
				for _, dv := range []string{"ak.schemaNull.allApps", "ak.schemaNull.originAfterNull", "ak.schemaUnknownTag.originAfter", "ak.schemaUnknownTag.allAppsAfter", "ak.schemaMistyped.originAfter"} {
					attestCase(c, "req.android-key."+dv, "android-key", []string{dv}, i%2 == 1)
				}
				s := newRegSpec(c.R, "android-key", pick(c.R, credAlgsFor("android-key")))
				s.Dev["ak.schemaStyle.honest"] = true
				b := buildRegistration(c.R, s)
				op := b.AttestOp("android-key")
				op["_dev"] = "ak.schemaStyle.honest"
				op["_expectOK"] = true
				executors["attest"](c, "req.android-key.ak.schemaStyle.honest", op)
			}
		}},
		Stream{"req.variants", func(c *Ctx) {
			for _, dv := range []string{"x5c.badOU", "x5c.emptyC", "x5c.emptyO"} {
				for v := 0; v < 7; v++ {
					attestCaseVar(c, "req.packed-x5c."+dv, "packed-x5c", []string{dv}, v%2 == 1, v)
				}
			}
		}},
		Stream{"req.memberProduct", func(c *Ctx) { memberProduct(c, "req.memberProduct") }},
		Stream{"req.honest", func(c *Ctx) {
			n := c.N(3, 60)
			for i := 0; i < n; i++ {
				for _, f := range allFormats {
					attestCase(c, "req.honest."+f, f, nil, i%2 == 1)
				}
			}
		}},
		Stream{"req.combinations", func(c *Ctx) {
			n := c.N(120, 6000)
			fs := []string{"packed-x5c", "tpm", "android-key", "apple", "fido-u2f", "android-safetynet", "packed-self"}
			for i := 0; i < n; i++ {
				f := pick(c.R, fs)
				devs := formatRequirementDevs[f]
				k := 2 + c.R.Intn(2)
				var chosen []string
				for j := 0; j < k; j++ {
					chosen = append(chosen, pick(c.R, devs))
				}
				attestCase(c, "req.combinations", f, chosen, c.R.Bool())
			}
		}},
		Stream{"req.mutatedStatement", func(c *Ctx) {
			// structured mutations of the statement map: member removed / retyped / duplicated
			n := c.N(300, 20000)
			for i := 0; i < n; i++ {
				f := pick(c.R, allFormats[1:])
				s := newRegSpec(c.R, f, pick(c.R, credAlgsFor(f)))
				s.AttAlg = pick(c.R, attAlgsFor(f))
				b := buildRegistration(c.R, s)
				b.Stmt = mutateStmt(c.R, b.Stmt)
				op := b.AttestOp(pick(c.R, []string{"", fmtID(f)}))
				op["_dev"] = "stmt-mutated"
				executors["attest"](c, "req.mutatedStatement", op)
			}
		}},
	)
}

// mutateStmt re-encodes a definite CBOR map of text keys with one structured change.
func mutateStmt(r *RNG, stmt []byte) []byte {
	// parse top-level pairs (harness-local, minimal CBOR walker for what the harness itself encoded)
	n, off := cborReadHead(stmt, 0)
	type kv struct{ k, v []byte }
	var kvs []kv
	for i := uint64(0); i < n; i++ {
		ks := off
		off = cborSkip(stmt, off)
		vs := off
		off = cborSkip(stmt, off)
		kvs = append(kvs, kv{stmt[ks:vs], stmt[vs:off]})
	}
	if len(kvs) == 0 {
		return cborMap(cborText(pick(r, []string{"alg", "sig", "x5c"})), genCBOR(r, 1, false))
	}
	i := r.Intn(len(kvs))
	switch r.Intn(6) {
	case 0:
		kvs = append(kvs[:i], kvs[i+1:]...)
	case 1:
		kvs[i].v = pick(r, [][]byte{cborInt(-7), cborInt(7), cborText("x"), cborBytes(nil), cborArray(), cborArray(cborInt(1)), {0xf6}, cborMap(), cborArray(cborBytes([]byte{0x30, 0x00}))})
	case 2:
		kvs = append(kvs, kv{kvs[i].k, pick(r, [][]byte{cborInt(-7), cborBytes(r.Bytes(8)), cborArray()})})
	case 3:
		kvs = append([]kv{{kvs[i].k, pick(r, [][]byte{cborInt(-257), cborBytes(r.Bytes(8)), cborArray()})}}, kvs...)
	case 4:
		kvs[i].v = mutate(r, kvs[i].v)
	case 5:
		kvs[i].k = cborText(pick(r, []string{"ALG", "Sig", "x5C", "alg ", ""}))
	}
	var flat [][]byte
	for _, e := range kvs {
		flat = append(flat, e.k, e.v)
	}
	return cborMap(flat...)
}

func cborReadHead(b []byte, off int) (uint64, int) {
	ai := b[off] & 0x1f
	switch {
	case ai < 24:
		return uint64(ai), off + 1
	case ai == 24:
		return uint64(b[off+1]), off + 2
	case ai == 25:
		return uint64(b[off+1])<<8 | uint64(b[off+2]), off + 3
	case ai == 26:
		return uint64(b[off+1])<<24 | uint64(b[off+2])<<16 | uint64(b[off+3])<<8 | uint64(b[off+4]), off + 5
	default:
		var v uint64
		for i := 1; i <= 8; i++ {
			v = v<<8 | uint64(b[off+i])
		}
		return v, off + 9
	}
}

func cborSkip(b []byte, off int) int {
	major := b[off] >> 5
	n, next := cborReadHead(b, off)
	switch major {
	case 0, 1, 7:
		return next
	case 2, 3:
		return next + int(n)
	case 4:
		for i := uint64(0); i < n; i++ {
			next = cborSkip(b, next)
		}
		return next
	case 5:
		for i := uint64(0); i < 2*n; i++ {
			next = cborSkip(b, next)
		}
		return next
	default:
		return cborSkip(b, next)
	}
}

// memberProduct: every statement member of every format deleted / replaced by each of a fixed list of values (deterministic product)
func memberProduct(c *Ctx, prefix string) {
	// every statement member of every format deleted / replaced by each of a fixed list of values (deterministic product)
	vals := [][]byte{nil, cborArray(), cborBytes(nil), {0xf6}, cborInt(-7), cborInt(0), cborText(""), cborMap(), cborArray(cborBytes(nil)), cborArray(cborInt(1))}
	for _, f := range allFormats[1:] {
		s := newRegSpec(c.R, f, pick(c.R, credAlgsFor(f)))
		s.AttAlg = pick(c.R, attAlgsFor(f))
		b := buildRegistration(c.R, s)
		n, off := cborReadHead(b.Stmt, 0)
		type kv struct{ k, v []byte }
		var kvs []kv
		for i := uint64(0); i < n; i++ {
			ks := off
			off = cborSkip(b.Stmt, off)
			vs := off
			off = cborSkip(b.Stmt, off)
			kvs = append(kvs, kv{b.Stmt[ks:vs], b.Stmt[vs:off]})
		}
		for i := range kvs {
			key := string(kvs[i].k[1:])
			for _, val := range vals {
				var flat [][]byte
				for j, e := range kvs {
					if j == i {
						if val == nil {
							continue // member deleted
						}
						flat = append(flat, e.k, val)
					} else {
						flat = append(flat, e.k, e.v)
					}
				}
				mb := *b
				mb.Stmt = cborMap(flat...)
				op := mb.AttestOp(fmtID(f))
				op["_dev"] = "member-" + key
				if val != nil && string(val) == string(kvs[i].v) {
					continue // replacement equals the original value
				}
				if key != "ver" && key != "ecdaaKeyId" {
					op["_expectOK"] = false // every member other than the version string (and the unread ecdaaKeyId) is needed for acceptance
				}
				executors["attest"](c, prefix+"."+f, op)
			}
			// the member's KEY replaced: null / undefined (the CBOR library then files the value under the previous member's key, or "" for
			// the first), an integer, a byte string, a boolean
			for _, kr := range [][]byte{{0xf6}, {0xf7}, cborInt(1), cborBytes([]byte(key)), {0xf5}} {
				var flat [][]byte
				for j, e := range kvs {
					if j == i {
						flat = append(flat, kr, e.v)
					} else {
						flat = append(flat, e.k, e.v)
					}
				}
				mb := *b
				mb.Stmt = cborMap(flat...)
				op := mb.AttestOp(fmtID(f))
				op["_dev"] = "key-" + key
				if key != "ver" && key != "ecdaaKeyId" {
					op["_expectOK"] = false
				}
				executors["attest"](c, prefix+"."+f, op)
			}
		}
	}
}
