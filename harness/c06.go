package main

import "fmt"

// C06: complete fault product — every storage outcome at every call — against honest and rejected ceremonies.
func init() {
	register("C06",
		Stream{"reg.faults", func(c *Ctx) {
			r := c.R
			gets := []string{"real-absent", "real-own", "real-other", "notFound", "wrapped", "err"}
			sets := []string{"real", "err"}
			devs := append([]string{""}, regDeviations...)
			formats := []string{"none", "packed-self", "packed-x5c", "fido-u2f"}
			if c.Thorough() {
				formats = allFormats
			}
			for _, f := range formats {
				for _, dv := range devs {
					for _, g := range gets {
						for _, st := range sets {
							s := newRegSpec(r, f, pick(r, credAlgsFor(f)))
							s.AttAlg = pick(r, attAlgsFor(f))
							if dv != "" {
								s.Dev[dv] = true
								switch dv {
								case "ad.noUV":
									uv := "required"
									s.AuthSelUV = &uv
								case "alg.notAllowed":
									s.Algs = []int{12345}
								case "fmt.notAllowed":
									s.VerifyOpt = []M{{"formats": []string{}}}
								case "type.notAllowed":
									s.VerifyOpt = []M{{"types": []string{}}}
								}
							}
							other := M{"id": hx(r.Bytes(6)), "owner": hx(r.Bytes(4)), "pk": hx(cborMap())}
							s.Store = []M{other}
							s.Set = st
							switch g {
							case "real-absent":
								s.Get = "real"
							case "real-own":
								s.Get = "real"
								s.Store = append(s.Store, M{"id": hx(s.CredID), "owner": hx(s.UserID), "pk": hx([]byte{0xa0})})
							case "real-other":
								s.Get = "real"
								s.Store = append(s.Store, M{"id": hx(s.CredID), "owner": hx(otherOwner(r, s.UserID)), "pk": hx([]byte{0xa0})})
							default:
								s.Get = g
								if r.Bool() {
									s.Store = append(s.Store, M{"id": hx(s.CredID), "owner": hx(r.Bytes(3)), "pk": hx([]byte{0xa0})})
								}
							}
							if dv == "owner.other" {
								continue // covered by real-other
							}
							b := buildRegistration(r, s)
							op := b.Op()
							op["_dev"] = fmt.Sprintf("%s|get=%s|set=%s", dv, g, st)
							executors["register"](c, "reg.faults", op)
						}
					}
				}
			}
			c.Res.mu.Lock()
			c.Res.Exhaustive = append(c.Res.Exhaustive, "registration: 6 read outcomes x 2 write outcomes x (honest + every single deviation) per format")
			c.Res.mu.Unlock()
		}},
		Stream{"auth.faults", func(c *Ctx) {
			r := c.R
			gets := []string{"real", "real-absent", "notFound", "wrapped", "err"}
			devs := append([]string{""}, authDeviations...)
			for _, alg := range []int{algES256, algEdDSA, algRS256, algPS384, algES512} {
				for _, dv := range devs {
					for _, g := range gets {
						kp := genKeyPair(r, alg)
						credID, owner := r.Bytes(16), r.Bytes(5)
						s := newAuthSpec(r, pick(r, honestOrigins), kp, credID, owner, kp.COSE(true))
						if dv != "" {
							s.Dev[dv] = true
							if dv == "ad.noUV" {
								s.UV = "required"
							}
							if dv == "allow.excludes" && len(s.Allow) == 0 {
								s.Allow = [][]byte{credID}
							}
						}
						s.Store = append(s.Store, M{"id": hx(r.Bytes(7)), "owner": hx(owner), "pk": hx(kp.COSE(true))})
						switch g {
						case "real":
						case "real-absent":
							s.Store = s.Store[1:]
						default:
							s.Get = g
						}
						op := buildAssertion(r, s)
						op["_dev"] = fmt.Sprintf("%s|get=%s", dv, g)
						executors["authenticate"](c, "auth.faults", op)
					}
				}
			}
			c.Res.mu.Lock()
			c.Res.Exhaustive = append(c.Res.Exhaustive, "authentication: 5 read outcomes x (honest + every single deviation) x 5 key kinds")
			c.Res.mu.Unlock()
		}},
	)
}
