package main

import (
	"bytes"
	"encoding/base64"
	"encoding/json"
	"fmt"
	"sort"
	"strings"
	"time"

	"github.com/pomerium/webauthn"
	"github.com/pomerium/webauthn/cose"
)

// ---------- protocol trees ----------

// treeOf converts parsed JSON (decoder with UseNumber) to the protocol encoding of Wire.Json, members sorted by name.
func treeOf(v any) any {
	switch x := v.(type) {
	case nil:
		return nil
	case bool:
		return M{"b": x}
	case json.Number:
		n, err := x.Int64()
		if err != nil {
			return M{"float": x.String()}
		}
		return M{"n": n}
	case string:
		return M{"s": hx([]byte(x))}
	case []any:
		out := []any{}
		for _, e := range x {
			out = append(out, treeOf(e))
		}
		return M{"a": out}
	case map[string]any:
		keys := make([]string, 0, len(x))
		for k := range x {
			keys = append(keys, k)
		}
		sort.Strings(keys)
		out := []any{}
		for _, k := range keys {
			out = append(out, []any{k, treeOf(x[k])})
		}
		return M{"o": out}
	}
	panic(fmt.Sprintf("treeOf: %T", v))
}

func parseTree(text []byte) (any, error) {
	dec := json.NewDecoder(bytes.NewReader(text))
	dec.UseNumber()
	var v any
	if err := dec.Decode(&v); err != nil {
		return nil, err
	}
	return treeOf(v), nil
}

// sortTree sorts object members of a protocol tree coming from the driver.
func sortTree(v any) any {
	m, ok := v.(M)
	if !ok {
		return v
	}
	if a, ok := m["a"].([]any); ok {
		out := []any{}
		for _, e := range a {
			out = append(out, sortTree(e))
		}
		return M{"a": out}
	}
	if o, ok := m["o"].([]any); ok {
		type kv struct {
			k string
			v any
		}
		var kvs []kv
		for _, e := range o {
			p := e.([]any)
			kvs = append(kvs, kv{p[0].(string), sortTree(p[1])})
		}
		sort.SliceStable(kvs, func(i, j int) bool { return kvs[i].k < kvs[j].k })
		out := []any{}
		for _, e := range kvs {
			out = append(out, []any{e.k, e.v})
		}
		return M{"o": out}
	}
	return m
}

// textOf renders a protocol tree back to JSON text (to feed encoding/json).
func textOf(v any) string {
	if v == nil {
		return "null"
	}
	m := v.(M)
	if b, ok := m["b"]; ok {
		return fmt.Sprint(b)
	}
	if n, ok := m["n"]; ok {
		return fmt.Sprint(num(n))
	}
	if s, ok := m["s"]; ok {
		b, _ := json.Marshal(string(unhx(s.(string))))
		return string(b)
	}
	if a, ok := m["a"].([]any); ok {
		var parts []string
		for _, e := range a {
			parts = append(parts, textOf(e))
		}
		return "[" + strings.Join(parts, ",") + "]"
	}
	if o, ok := m["o"].([]any); ok {
		var parts []string
		for _, e := range o {
			p := e.([]any)
			k, _ := json.Marshal(p[0].(string))
			parts = append(parts, string(k)+":"+textOf(p[1]))
		}
		return "{" + strings.Join(parts, ",") + "}"
	}
	panic("textOf")
}

// ---------- Go values -> protocol Val (schema order of Spec/Wire.lean) ----------

func vBytes(b []byte) M { return M{"bytes": hx(b)} }
func vStr(s string) M   { return M{"str": hx([]byte(s))} }
func vBool(b bool) M    { return M{"bool": b} }
func vInt(i int64) M    { return M{"int": i} }
func vObj(fs ...any) M  { return M{"obj": fs} }
func vAny(m map[string]any) M {
	if m == nil {
		return M{"any": nil}
	}
	b, _ := json.Marshal(m)
	t, _ := parseTree(b)
	return M{"any": t}
}

func vRP(v webauthn.PublicKeyCredentialRPEntity) M { return vObj(vStr(v.ID), vStr(v.Name)) }
func vUser(v webauthn.PublicKeyCredentialUserEntity) M {
	return vObj(vBytes(v.ID), vStr(v.DisplayName), vStr(v.Name))
}
func vDescriptor(v webauthn.PublicKeyCredentialDescriptor) M {
	var ts any
	if v.Transports != nil {
		l := []any{}
		for _, t := range v.Transports {
			l = append(l, hx([]byte(t)))
		}
		ts = l
	}
	return vObj(vStr(string(v.Type)), vBytes(v.ID), M{"strs": ts})
}
func vDescriptors(l []webauthn.PublicKeyCredentialDescriptor) M {
	if l == nil {
		return M{"objs": nil}
	}
	out := []any{}
	for _, d := range l {
		out = append(out, vDescriptor(d))
	}
	return M{"objs": out}
}
func vParams(l []webauthn.PublicKeyCredentialParameters) M {
	if l == nil {
		return M{"objs": nil}
	}
	out := []any{}
	for _, p := range l {
		out = append(out, vObj(vStr(string(p.Type)), vInt(int64(p.COSEAlgorithmIdentifier))))
	}
	return M{"objs": out}
}
func vAuthSel(p *webauthn.AuthenticatorSelectionCriteria) M {
	if p == nil {
		return M{"ptr": nil}
	}
	return M{"ptr": vObj(vStr(string(p.AuthenticatorAttachment)), vStr(string(p.ResidentKey)), vBool(p.RequireResidentKey), vStr(string(p.UserVerification)))}
}
func vCreationOptions(v webauthn.PublicKeyCredentialCreationOptions) M {
	return vObj(vRP(v.RP), vUser(v.User), vBytes(v.Challenge), vParams(v.PubKeyCredParams), vInt(v.Timeout.Milliseconds()), vDescriptors(v.ExcludeCredentials),
		vAuthSel(v.AuthenticatorSelection), vStr(string(v.Attestation)), vAny(v.Extensions))
}
func vRequestOptions(v webauthn.PublicKeyCredentialRequestOptions) M {
	return vObj(vBytes(v.Challenge), vInt(v.Timeout.Milliseconds()), vStr(v.RPID), vDescriptors(v.AllowCredentials), vStr(string(v.UserVerification)), vAny(v.Extensions))
}
func vAttResp(v webauthn.AuthenticatorAttestationResponse) M {
	return vObj(vBytes(v.ClientDataJSON), vBytes(v.AttestationObject))
}
func vAssResp(v webauthn.AuthenticatorAssertionResponse) M {
	return vObj(vBytes(v.ClientDataJSON), vBytes(v.AuthenticatorData), vBytes(v.Signature), vBytes(v.UserHandle))
}
func vCreationCred(v webauthn.PublicKeyCreationCredential) M {
	return vObj(vStr(v.ID), vStr(string(v.Type)), vBytes(v.RawID), vAttResp(v.Response), vAny(v.ClientExtensionResults))
}
func vAssertionCred(v webauthn.PublicKeyAssertionCredential) M {
	return vObj(vStr(v.ID), vStr(string(v.Type)), vBytes(v.RawID), vAssResp(v.Response), vAny(v.ClientExtensionResults))
}

// ---------- random values ----------

func genBytesW(r *RNG) []byte {
	switch r.Intn(8) {
	case 0:
		return nil
	case 1:
		return []byte{}
	case 2:
		return []byte{0xfb, 0xff, 0xfe} // encodes to "-__-" style characters
	case 3:
		return r.Bytes(1 + r.Intn(3))
	default:
		return r.Bytes(r.Intn(80))
	}
}
func genStrW(r *RNG) string {
	return pick(r, []string{"", "public-key", "a", "usb", "example.com", "Ünïcode ✓", "with \"quotes\" and \\", "required", "platform"})
}
func genExt(r *RNG) map[string]any {
	switch r.Intn(4) {
	case 0:
		return nil
	case 1:
		return map[string]any{}
	case 2:
		return map[string]any{"appid": "https://example.com", "credProps": true}
	default:
		return map[string]any{"n": 12345, "nested": map[string]any{"a": []any{"x", 1, false, nil}}, "s": genStrW(r)}
	}
}
func genDescriptor(r *RNG) webauthn.PublicKeyCredentialDescriptor {
	d := webauthn.PublicKeyCredentialDescriptor{Type: webauthn.PublicKeyCredentialType(genStrW(r)), ID: genBytesW(r)}
	switch r.Intn(3) {
	case 0:
		d.Transports = []webauthn.AuthenticatorTransport{}
	case 1:
		d.Transports = []webauthn.AuthenticatorTransport{"usb", "nfc", webauthn.AuthenticatorTransport(genStrW(r))}
	}
	return d
}
func genDescriptors(r *RNG) []webauthn.PublicKeyCredentialDescriptor {
	switch r.Intn(3) {
	case 0:
		return nil
	case 1:
		return []webauthn.PublicKeyCredentialDescriptor{}
	}
	var out []webauthn.PublicKeyCredentialDescriptor
	for i := 0; i < 1+r.Intn(3); i++ {
		out = append(out, genDescriptor(r))
	}
	return out
}
func genTimeout(r *RNG) time.Duration {
	return time.Duration(pick(r, []int64{0, 1, 60000, 300000, -5, 123456789})) * time.Millisecond
}

type wireCase struct {
	ty   string
	val  M
	text []byte                  // json.Marshal(v)
	ptxt []byte                  // json.Marshal(&v)
	back func(...[]byte) (M, error) // Unmarshal the documents one after the other into ONE value that starts fresh, converted to Val
}

func genWire(r *RNG) wireCase {
	mk := func(ty string, v any, pv any, val M, back func(...[]byte) (M, error)) wireCase {
		t, err := json.Marshal(v)
		if err != nil {
			panic(err)
		}
		pt, err := json.Marshal(pv)
		if err != nil {
			panic(err)
		}
		return wireCase{ty, val, t, pt, back}
	}
	switch r.Intn(8) {
	case 0:
		v := webauthn.PublicKeyCredentialUserEntity{ID: genBytesW(r), DisplayName: genStrW(r), Name: genStrW(r)}
		return mk("userEntity", v, &v, vUser(v), func(docs ...[]byte) (M, error) {
			var x webauthn.PublicKeyCredentialUserEntity
			var err error
			for _, b := range docs {
				err = json.Unmarshal(b, &x)
			}
			return vUser(x), err
		})
	case 1:
		v := genDescriptor(r)
		return mk("descriptor", v, &v, vDescriptor(v), func(docs ...[]byte) (M, error) {
			var x webauthn.PublicKeyCredentialDescriptor
			var err error
			for _, b := range docs {
				err = json.Unmarshal(b, &x)
			}
			return vDescriptor(x), err
		})
	case 2:
		v := webauthn.PublicKeyCredentialCreationOptions{RP: webauthn.PublicKeyCredentialRPEntity{ID: genStrW(r), Name: genStrW(r)},
			User: webauthn.PublicKeyCredentialUserEntity{ID: genBytesW(r), DisplayName: genStrW(r), Name: genStrW(r)}, Challenge: genBytesW(r),
			Timeout: genTimeout(r), ExcludeCredentials: genDescriptors(r), Attestation: webauthn.AttestationConveyancePreference(genStrW(r)), Extensions: genExt(r)}
		switch r.Intn(3) {
		case 0:
			v.PubKeyCredParams = []webauthn.PublicKeyCredentialParameters{}
		case 1:
			v.PubKeyCredParams = []webauthn.PublicKeyCredentialParameters{{Type: "public-key", COSEAlgorithmIdentifier: cose.AlgorithmES256}, {Type: "public-key", COSEAlgorithmIdentifier: cose.AlgorithmRS1}, {Type: "", COSEAlgorithmIdentifier: 0}}
		}
		if r.Bool() {
			v.AuthenticatorSelection = &webauthn.AuthenticatorSelectionCriteria{AuthenticatorAttachment: webauthn.AuthenticatorAttachment(genStrW(r)),
				ResidentKey: webauthn.ResidentKeyType(genStrW(r)), RequireResidentKey: r.Bool(), UserVerification: webauthn.UserVerificationRequirement(genStrW(r))}
		}
		return mk("creationOptions", v, &v, vCreationOptions(v), func(docs ...[]byte) (M, error) {
			var x webauthn.PublicKeyCredentialCreationOptions
			var err error
			for _, b := range docs {
				err = json.Unmarshal(b, &x)
			}
			return vCreationOptions(x), err
		})
	case 3:
		v := webauthn.PublicKeyCredentialRequestOptions{Challenge: genBytesW(r), Timeout: genTimeout(r), RPID: genStrW(r), AllowCredentials: genDescriptors(r),
			UserVerification: webauthn.UserVerificationRequirement(genStrW(r)), Extensions: genExt(r)}
		return mk("requestOptions", v, &v, vRequestOptions(v), func(docs ...[]byte) (M, error) {
			var x webauthn.PublicKeyCredentialRequestOptions
			var err error
			for _, b := range docs {
				err = json.Unmarshal(b, &x)
			}
			return vRequestOptions(x), err
		})
	case 4:
		v := webauthn.PublicKeyCreationCredential{ID: genStrW(r), Type: webauthn.PublicKeyCredentialType(genStrW(r)), RawID: genBytesW(r),
			Response: webauthn.AuthenticatorAttestationResponse{ClientDataJSON: genBytesW(r), AttestationObject: genBytesW(r)}, ClientExtensionResults: genExt(r)}
		return mk("creationCredential", v, &v, vCreationCred(v), func(docs ...[]byte) (M, error) {
			var x webauthn.PublicKeyCreationCredential
			var err error
			for _, b := range docs {
				err = json.Unmarshal(b, &x)
			}
			return vCreationCred(x), err
		})
	case 5:
		v := webauthn.PublicKeyAssertionCredential{ID: genStrW(r), Type: webauthn.PublicKeyCredentialType(genStrW(r)), RawID: genBytesW(r),
			Response:               webauthn.AuthenticatorAssertionResponse{ClientDataJSON: genBytesW(r), AuthenticatorData: genBytesW(r), Signature: genBytesW(r), UserHandle: genBytesW(r)},
			ClientExtensionResults: genExt(r)}
		return mk("assertionCredential", v, &v, vAssertionCred(v), func(docs ...[]byte) (M, error) {
			var x webauthn.PublicKeyAssertionCredential
			var err error
			for _, b := range docs {
				err = json.Unmarshal(b, &x)
			}
			return vAssertionCred(x), err
		})
	case 6:
		v := webauthn.AuthenticatorAttestationResponse{ClientDataJSON: genBytesW(r), AttestationObject: genBytesW(r)}
		return mk("attestationResponse", v, &v, vAttResp(v), func(docs ...[]byte) (M, error) {
			var x webauthn.AuthenticatorAttestationResponse
			var err error
			for _, b := range docs {
				err = json.Unmarshal(b, &x)
			}
			return vAttResp(x), err
		})
	default:
		v := webauthn.AuthenticatorAssertionResponse{ClientDataJSON: genBytesW(r), AuthenticatorData: genBytesW(r), Signature: genBytesW(r), UserHandle: genBytesW(r)}
		return mk("assertionResponse", v, &v, vAssResp(v), func(docs ...[]byte) (M, error) {
			var x webauthn.AuthenticatorAssertionResponse
			var err error
			for _, b := range docs {
				err = json.Unmarshal(b, &x)
			}
			return vAssResp(x), err
		})
	}
}

// all paths to string members that carry binary data, per type (for the malformed-member stream)
func binaryPaths(ty string) [][]string {
	switch ty {
	case "userEntity":
		return [][]string{{"id"}}
	case "descriptor":
		return [][]string{{"id"}}
	case "creationOptions":
		return [][]string{{"challenge"}, {"user", "id"}}
	case "requestOptions":
		return [][]string{{"challenge"}}
	case "creationCredential":
		return [][]string{{"rawId"}, {"response", "clientDataJSON"}, {"response", "attestationObject"}}
	case "assertionCredential":
		return [][]string{{"rawId"}, {"response", "clientDataJSON"}, {"response", "authenticatorData"}, {"response", "signature"}, {"response", "userHandle"}}
	case "attestationResponse":
		return [][]string{{"clientDataJSON"}, {"attestationObject"}}
	case "assertionResponse":
		return [][]string{{"clientDataJSON"}, {"authenticatorData"}, {"signature"}, {"userHandle"}}
	}
	return nil
}

func setPath(tree any, path []string, val any) any {
	m := tree.(M)
	o := m["o"].([]any)
	out := []any{}
	found := false
	for _, e := range o {
		p := e.([]any)
		if p[0].(string) == path[0] {
			found = true
			if len(path) == 1 {
				out = append(out, []any{p[0], val})
			} else {
				out = append(out, []any{p[0], setPath(p[1], path[1:], val)})
			}
		} else {
			out = append(out, e)
		}
	}
	if !found && len(path) == 1 {
		out = append(out, []any{path[0], val})
		sort.SliceStable(out, func(i, j int) bool { return out[i].([]any)[0].(string) < out[j].([]any)[0].(string) })
	}
	return M{"o": out}
}

func hasMember(tree any, name string) bool {
	m, ok := tree.(M)
	if !ok {
		return false
	}
	o, ok := m["o"].([]any)
	if !ok {
		return false
	}
	for _, e := range o {
		if p := e.([]any); p[0].(string) == name {
			_, isObj := p[1].(M)
			return isObj && p[1].(M)["o"] != nil
		}
	}
	return false
}

// setPathNew: as setPath, appending the last path component to the nested object when it is not there
func setPathNew(tree any, path []string, val any) any {
	if len(path) == 1 {
		return setPath(tree, path, val)
	}
	m := tree.(M)
	out := []any{}
	for _, e := range m["o"].([]any) {
		p := e.([]any)
		if p[0].(string) == path[0] {
			out = append(out, []any{p[0], setPathNew(p[1], path[1:], val)})
		} else {
			out = append(out, e)
		}
	}
	return M{"o": out}
}

func init() {
	executors["wire.marshal"] = func(c *Ctx, stream string, op M) {}
	executors["b64"] = func(c *Ctx, stream string, op M) {
		if d, ok := op["data"].(string); ok {
			m := c.Call(M{"op": "b64.encode", "data": d})
			c.Compare(stream, M{"op": "b64.encode", "data": d}, M{"s": hx([]byte(base64.RawURLEncoding.EncodeToString(unhx(d))))}, M{"s": m["s"]}, "encode", true)
			return
		}
		s := op["s"].(string)
		m := c.Call(M{"op": "b64.decode", "s": s})
		delete(m, "id")
		str := string(unhx(s))
		var impl M
		if str == "" {
			impl = M{"ok": true, "data": ""}
		} else if b, err := base64.RawURLEncoding.DecodeString(str); err == nil {
			impl = M{"ok": true, "data": hx(b)}
		} else {
			impl = M{"ok": false}
		}
		class := "decode-reject"
		if ok, _ := m["ok"].(bool); ok {
			class = "decode-accept"
		}
		c.Compare(stream, M{"op": "b64.decode", "s": s}, impl, m, class, true)
	}
	register("C14",
		Stream{"wire.roundtrip", func(c *Ctx) {
			prevText := map[string][]byte{}
			n := c.N(2500, 150000)
			for i := 0; i < n; i++ {
				w := genWire(c.R)
				// 1. the document json.Marshal produces is the one the model prescribes (binary members base64url, ms timeouts, nullable ids)
				implTree, err := parseTree(w.text)
				if err != nil {
					panic(err)
				}
				m := c.Call(M{"op": "wire.marshal", "type": w.ty, "val": w.val})
				op := M{"op": "wire.marshal", "type": w.ty, "val": w.val}
				c.Compare("wire.marshal", op, M{"doc": implTree}, M{"doc": sortTree(m["doc"])}, w.ty, true)
				// 2. value and pointer marshal to the same document
				c.Compare("wire.valueVsPointer", M{"op": "wire.valueVsPointer", "type": w.ty, "val": w.val}, M{"doc": string(w.ptxt)}, M{"doc": string(w.text)}, w.ty, true)
				// 3. Unmarshal(Marshal(v)) on both sides
				um := c.Call(M{"op": "wire.unmarshal", "type": w.ty, "doc": implTree})
				back, berr := w.back(w.text)
				impl := M{"ok": berr == nil}
				if berr == nil {
					impl["val"] = back
				}
				mo := M{"ok": um["ok"]}
				if ok, _ := um["ok"].(bool); ok {
					mo["val"] = um["val"]
				}
				c.Compare("wire.unmarshal", M{"op": "wire.unmarshal", "type": w.ty, "doc": implTree}, impl, mo, w.ty, true)
				// 3b. a destination that held another value before: Unmarshal gives what it gives into a fresh value (members the document
				// omits do not survive from the earlier content)
				if berr == nil && prevText[w.ty] != nil {
					reused, rerr := w.back(prevText[w.ty], w.text)
					c.Compare("wire.unmarshalReused", M{"op": "wire.unmarshalReused", "type": w.ty, "first": string(prevText[w.ty]), "second": string(w.text)},
						M{"ok": rerr == nil, "val": reused}, M{"ok": true, "val": back}, w.ty, true)
				}
				prevText[w.ty] = w.text
				// 4. re-marshal of the unmarshalled value gives an equivalent document
				if berr == nil {
					var again []byte
					switch w.ty {
					default:
						again = remarshal(w.ty, w.text)
					}
					t2, _ := parseTree(again)
					c.Compare("wire.remarshal", M{"op": "wire.remarshal", "type": w.ty, "text": string(w.text)}, M{"doc": t2}, M{"doc": implTree}, w.ty, true)
				}
			}
		}},
		Stream{"wire.malformedBinary", func(c *Ctx) {
			n := c.N(1500, 80000)
			bad := func(r *RNG, good string) string {
				switch r.Intn(10) {
				case 0:
					return good + "="
				case 1:
					return good + "=="
				case 2:
					return strings.NewReplacer("-", "+", "_", "/").Replace(good) + "+/"
				case 3:
					return good + " "
				case 4:
					return " " + good
				case 5:
					return good + "A" // may produce length 1 mod 4
				case 6:
					return good + "!"
				case 7:
					return good + "AB"[:1+r.Intn(1)] + "*"
				case 8:
					if len(good) > 1 {
						return good[:len(good)-1]
					}
					return "A"
				default:
					return base64.StdEncoding.EncodeToString([]byte(good + "x"))
				}
			}
			for i := 0; i < n; i++ {
				w := genWire(c.R)
				paths := binaryPaths(w.ty)
				if len(paths) == 0 {
					continue
				}
				tree, _ := parseTree(w.text)
				path := pick(c.R, paths)
				good := base64.RawURLEncoding.EncodeToString(c.R.Bytes(c.R.Intn(10)))
				s := bad(c.R, good)
				doc := setPath(tree, path, M{"s": hx([]byte(s))})
				text := textOf(doc)
				um := c.Call(M{"op": "wire.unmarshal", "type": w.ty, "doc": doc})
				back, berr := w.back([]byte(text))
				impl := M{"ok": berr == nil}
				if berr == nil {
					impl["val"] = back
				}
				mo := M{"ok": um["ok"]}
				class := "rejected"
				if ok, _ := um["ok"].(bool); ok {
					mo["val"] = um["val"]
					class = "accepted"
				}
				// a string whose last character carries non-zero padding bits ("e9"): Go's decoder accepts it unless Strict(); the property neither
				// demands nor forbids that, so a rejection by the implementation is not compared (an acceptance must still give the model's value)
				if dec, derr := base64.RawURLEncoding.DecodeString(s); derr == nil && base64.RawURLEncoding.EncodeToString(dec) != s && berr != nil {
					c.Compare("wire.malformedBinary", M{"op": "wire.unmarshal", "type": w.ty, "doc": doc}, M{"ok": false}, M{"ok": false}, "noncanonical-rejected/"+w.ty, true)
					continue
				}
				c.Compare("wire.malformedBinary", M{"op": "wire.unmarshal", "type": w.ty, "doc": doc}, impl, mo, class+"/"+w.ty, true)
			}
		}},
		Stream{"wire.browserDocuments", func(c *Ctx) {
			// a document a browser produces carries members this package does not know (authenticatorAttachment, clientExtensionResults,
			// transports, publicKeyAlgorithm, hints, ...): they do not change what is unmarshalled
			n := c.N(1500, 60000)
			str := func(x string) M { return M{"s": hx([]byte(x))} }
			extras := [][2]any{{"authenticatorAttachment", str("platform")}, {"clientExtensionOutputs", M{"o": []any{}}},
				{"credProps", M{"o": []any{[]any{"credProps", M{"o": []any{[]any{"rk", M{"b": true}}}}}}}},
				{"hints", M{"a": []any{str("security-key")}}}, {"attestationFormats", M{"a": []any{}}}, {"zzUnknown", nil}, {"aaUnknown", M{"n": 1}},
				{"Type2", str("x")}, {"unknown member", M{"a": []any{M{"n": 1}, nil, M{"b": false}}}}}
			nested := [][2]any{{"transports", M{"a": []any{str("usb"), str("nfc")}}}, {"publicKeyAlgorithm", M{"n": -7}}, {"publicKey", str("MFkw")},
				{"authenticatorData2", str("AAAA")}, {"zz", nil}}
			for i := 0; i < n; i++ {
				w := genWire(c.R)
				tree, _ := parseTree(w.text)
				doc := tree
				k := 1 + c.R.Intn(3)
				for j := 0; j < k; j++ {
					e := pick(c.R, extras)
					doc = setPath(doc, []string{e[0].(string)}, e[1])
				}
				if (w.ty == "creationCredential" || w.ty == "assertionCredential") && c.R.Bool() {
					e := pick(c.R, nested)
					if hasMember(doc, "response") {
						doc = setPathNew(doc, []string{"response", e[0].(string)}, e[1])
					}
				}
				text := textOf(doc)
				um := c.Call(M{"op": "wire.unmarshal", "type": w.ty, "doc": doc})
				back, berr := w.back([]byte(text))
				impl := M{"ok": berr == nil}
				if berr == nil {
					impl["val"] = back
				}
				mo := M{"ok": um["ok"]}
				if ok, _ := um["ok"].(bool); ok {
					mo["val"] = um["val"]
				}
				c.Compare("wire.browserDocuments", M{"op": "wire.unmarshal", "type": w.ty, "doc": doc}, impl, mo, w.ty, true)
				// and the value is the one the document without the further members gives
				plain, perr := w.back(w.text)
				c.Compare("wire.browserDocuments.same", M{"op": "wire.sameValue", "type": w.ty, "text": text}, impl, M{"ok": perr == nil, "val": plain}, w.ty, true)
			}
		}},
		Stream{"b64", func(c *Ctx) {
			n := c.N(4000, 300000)
			alphabet := "ABCXYZabcxyz0189-_=+/ \r\n!*.A"
			for i := 0; i < n; i++ {
				executors["b64"](c, "b64.encode", M{"data": hx(c.R.Bytes(c.R.Intn(40)))})
				var s string
				switch i % 3 {
				case 0:
					s = base64.RawURLEncoding.EncodeToString(c.R.Bytes(c.R.Intn(20)))
					if c.R.Bool() {
						s = string(mutate(c.R, []byte(s)))
					}
				case 1:
					var sb strings.Builder
					for k := 0; k < c.R.Intn(12); k++ {
						sb.WriteByte(alphabet[c.R.Intn(len(alphabet))])
					}
					s = sb.String()
				default:
					s = base64.StdEncoding.EncodeToString(c.R.Bytes(c.R.Intn(20)))
				}
				if strings.ContainsAny(s, "\r\n") && c.R.Bool() {
					// CR/LF are skipped by Go's decoder by specification; the model reproduces that
				}
				executors["b64"](c, "b64.decode", M{"s": hx([]byte(s))})
			}
		}},
	)
}

func remarshal(ty string, text []byte) []byte {
	var out []byte
	switch ty {
	case "userEntity":
		var x webauthn.PublicKeyCredentialUserEntity
		json.Unmarshal(text, &x)
		out, _ = json.Marshal(x)
	case "descriptor":
		var x webauthn.PublicKeyCredentialDescriptor
		json.Unmarshal(text, &x)
		out, _ = json.Marshal(x)
	case "creationOptions":
		var x webauthn.PublicKeyCredentialCreationOptions
		json.Unmarshal(text, &x)
		out, _ = json.Marshal(x)
	case "requestOptions":
		var x webauthn.PublicKeyCredentialRequestOptions
		json.Unmarshal(text, &x)
		out, _ = json.Marshal(x)
	case "creationCredential":
		var x webauthn.PublicKeyCreationCredential
		json.Unmarshal(text, &x)
		out, _ = json.Marshal(x)
	case "assertionCredential":
		var x webauthn.PublicKeyAssertionCredential
		json.Unmarshal(text, &x)
		out, _ = json.Marshal(x)
	case "attestationResponse":
		var x webauthn.AuthenticatorAttestationResponse
		json.Unmarshal(text, &x)
		out, _ = json.Marshal(x)
	case "assertionResponse":
		var x webauthn.AuthenticatorAssertionResponse
		json.Unmarshal(text, &x)
		out, _ = json.Marshal(x)
	}
	return out
}
