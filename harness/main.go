// waharness: correspondence check between /repo (linked in-process) and the Lean model (wadriver).
package main

import (
	"crypto/sha256"
	"encoding/json"
	"flag"
	"fmt"
	"os"
	"reflect"
	"runtime/debug"
	"sort"
	"sync"
	"sync/atomic"
	"time"
)

type Disagreement struct {
	Stream string            `json:"stream"`
	Op     M                 `json:"op"`
	Impl   M                 `json:"impl"`
	Model  M                 `json:"model"`
	Asks   []json.RawMessage `json:"asks,omitempty"`
	Note   string            `json:"note,omitempty"`
	Known  string            `json:"known,omitempty"`
}

type Result struct {
	mu             sync.Mutex
	Property       string         `json:"property"`
	Tier           string         `json:"tier"`
	Seed           uint64         `json:"seed"`
	Evaluations    int            `json:"evaluations"`
	Distinct       int            `json:"distinct"`
	NonTrivial     int            `json:"distinct_nontrivial"`
	Unmodelled     int            `json:"unmodelled"`
	Classes        map[string]int `json:"distribution"`
	Streams        map[string]int `json:"streams"`
	Samples        []M            `json:"samples"`
	Disagreements  []Disagreement `json:"disagreements"`
	NDisagreements int            `json:"n_disagreements"`
	ByStream       map[string]int `json:"disagreements_by_stream"`
	KnownHits      map[string]int `json:"known_findings_hit"`
	Exhaustive     []string       `json:"exhaustive,omitempty"`
	Asks           int            `json:"asks"`
	WallS          float64        `json:"wall_s"`
	seen           map[[32]byte]bool
	sampled        map[string]int
}

func NewResult(prop, tier string, seed uint64) *Result {
	return &Result{Property: prop, Tier: tier, Seed: seed, Classes: map[string]int{}, Streams: map[string]int{},
		KnownHits: map[string]int{}, ByStream: map[string]int{}, seen: map[[32]byte]bool{}, sampled: map[string]int{}}
}

// Ctx is what one stream worker sees.
type Ctx struct {
	D    *Driver
	R    *RNG
	Res  *Result
	Tier string
	// CrashOnly: only a panic, a timeout or excessive memory of the implementation counts as a disagreement (property C09 is
	// about returning at all; what is returned is the business of the other properties)
	CrashOnly bool
}

func (c *Ctx) Thorough() bool { return c.Tier == "thorough" }

// N scales a per-stream case count by tier.
func (c *Ctx) N(quick, thorough int) int {
	if c.Thorough() {
		return thorough
	}
	return quick
}

func canon(v any) string {
	b, _ := json.Marshal(v) // map keys are sorted by encoding/json
	return string(b)
}

// Compare records one case. impl and model are the property-level observables.
// class feeds the distribution table; nontrivial is the per-property rule.
func (c *Ctx) Compare(stream string, op M, impl, model M, class string, nontrivial bool) bool {
	r := c.Res
	key := sha256.Sum256([]byte(stream + canon(op)))
	eq := reflect.DeepEqual(normalize(impl), normalize(model))
	if c.CrashOnly {
		_, panicked := impl["panic"]
		_, timedOut := impl["timeout_s"]
		_, heap := impl["heap_gib"]
		eq = !(panicked || timedOut || heap)
	}
	r.mu.Lock()
	defer r.mu.Unlock()
	r.Evaluations++
	r.Streams[stream]++
	r.Classes[stream+"/"+class]++
	if !r.seen[key] {
		r.seen[key] = true
		r.Distinct++
		if nontrivial {
			r.NonTrivial++
		}
	}
	if r.sampled[stream] < 2 {
		r.sampled[stream]++
		r.Samples = append(r.Samples, M{"stream": stream, "op": truncOp(op), "impl": impl, "model": model})
	}
	if !eq {
		r.NDisagreements++
		r.ByStream[stream+"|"+fmt.Sprint(op["_dev"])]++
		if r.ByStream[stream+"|"+fmt.Sprint(op["_dev"])] <= 3 && len(r.Disagreements) < 200 {
			d := Disagreement{Stream: stream, Op: op, Impl: impl, Model: model}
			d.Asks = append(d.Asks, c.D.AskLog...)
			r.Disagreements = append(r.Disagreements, d)
		}
	}
	return eq
}

func (c *Ctx) Unmodelled(stream string) {
	c.Res.mu.Lock()
	c.Res.Unmodelled++
	c.Res.Evaluations++
	c.Res.Streams[stream]++
	c.Res.Classes[stream+"/unmodelled"]++
	c.Res.mu.Unlock()
}

func normalize(v any) any {
	b, _ := json.Marshal(v)
	var out any
	json.Unmarshal(b, &out)
	return out
}

func truncOp(op M) M {
	out := M{}
	for k, v := range op {
		if s, ok := v.(string); ok && len(s) > 400 {
			out[k] = s[:400] + fmt.Sprintf("…(%d hex chars)", len(s))
		} else {
			out[k] = v
		}
	}
	return out
}

// Call runs an op on the driver; a driver failure is fatal for the run (reported as harness error).
func (c *Ctx) Call(op M) M {
	m, err := c.D.Call(op)
	if err != nil {
		fmt.Fprintln(os.Stderr, "HARNESS-ERROR:", err)
		os.Exit(2)
	}
	return m
}

// guard runs f, converting a panic in the implementation into an observable.
// guard runs f, converting a panic in the implementation into an observable, and a call that does not return within the budget into
// {"timeout_s": n} (the goroutine is abandoned: a check must terminate even when the code under test does not).
func guard(f func() M) (out M) {
	if atomic.LoadInt32(&guardTimeouts) >= 4 {
		// the code under test has stopped returning: every further call would cost the whole budget (and leave a spinning goroutine behind)
		return M{"timeout_s": guardBudget.Seconds(), "not_run_after_repeated_timeouts": true}
	}
	done := make(chan M, 1)
	go func() {
		defer func() {
			if p := recover(); p != nil {
				done <- M{"panic": fmt.Sprint(p), "stack": string(debug.Stack())}
			}
		}()
		done <- f()
	}()
	select {
	case out = <-done:
		return out
	case <-time.After(guardBudget):
		atomic.AddInt32(&guardTimeouts, 1)
		return M{"timeout_s": guardBudget.Seconds()}
	}
}

// guardBudget: far above anything the library needs for the inputs the streams generate (milliseconds), far below a check's patience
const guardBudget = 20 * time.Second

var guardTimeouts int32

type Stream struct {
	Name string
	Run  func(c *Ctx)
}

var registry = map[string][]Stream{}

func register(prop string, s ...Stream) { registry[prop] = append(registry[prop], s...) }

func main() {
	prop := flag.String("prop", "", "property id")
	tier := flag.String("tier", "quick", "quick|thorough")
	seed := flag.Uint64("seed", 1, "seed")
	driver := flag.String("driver", "/verif/lean/.lake/build/bin/wadriver", "path to wadriver")
	out := flag.String("out", "", "result file")
	replay := flag.String("replay", "", "replay file (disagreement record)")
	only := flag.String("stream", "", "run only this stream")
	flag.Parse()
	if *replay != "" {
		os.Exit(doReplay(*replay, *driver))
	}
	streams, ok := registry[*prop]
	if !ok {
		fmt.Fprintln(os.Stderr, "unknown property", *prop)
		os.Exit(2)
	}
	start := time.Now()
	res := NewResult(*prop, *tier, *seed)
	root := NewRNG(*seed)
	var wg sync.WaitGroup
	sem := make(chan struct{}, 16)
	var dm sync.Mutex
	totalAsks := 0
	for _, s := range streams {
		if *only != "" && s.Name != *only {
			continue
		}
		s := s
		r := NewRNG(root.U64() ^ hashName(s.Name))
		wg.Add(1)
		go func() {
			defer wg.Done()
			sem <- struct{}{}
			defer func() { <-sem }()
			d, err := StartDriver(*driver)
			if err != nil {
				fmt.Fprintln(os.Stderr, "HARNESS-ERROR: cannot start driver:", err)
				os.Exit(2)
			}
			c := &Ctx{D: d, R: r, Res: res, Tier: *tier, CrashOnly: *prop == "C09"}
			func() {
				defer func() {
					if p := recover(); p != nil {
						// an executor could not interpret the model's answer (a model_error, a missing member): the stream stops here and
						// the case is reported as a disagreement
						res.mu.Lock()
						res.NDisagreements++
						res.ByStream[s.Name+"|harness-panic"]++
						res.Disagreements = append(res.Disagreements, Disagreement{Stream: s.Name, Op: M{"_dev": "stream aborted"},
							Impl: M{}, Model: M{"stream_aborted": fmt.Sprint(p), "stack": string(debug.Stack())}})
						res.mu.Unlock()
					}
				}()
				s.Run(c)
			}()
			d.Close()
			dm.Lock()
			totalAsks += d.Asks
			dm.Unlock()
		}()
	}
	wg.Wait()
	res.Asks = totalAsks
	res.WallS = time.Since(start).Seconds()
	sort.Slice(res.Disagreements, func(i, j int) bool { return res.Disagreements[i].Stream < res.Disagreements[j].Stream })
	b, _ := json.MarshalIndent(res, "", " ")
	if *out != "" {
		os.WriteFile(*out, b, 0o644)
	} else {
		os.Stdout.Write(b)
	}
	fmt.Fprintf(os.Stderr, "%s: %d evaluations, %d distinct non-trivial, %d unmodelled, %d disagreements, %.1fs\n",
		*prop, res.Evaluations, res.NonTrivial, res.Unmodelled, res.NDisagreements, res.WallS)
}

func hashName(s string) uint64 {
	h := sha256.Sum256([]byte(s))
	var v uint64
	for i := 0; i < 8; i++ {
		v = v<<8 | uint64(h[i])
	}
	return v
}

func doReplay(path, driver string) int {
	b, err := os.ReadFile(path)
	if err != nil {
		fmt.Fprintln(os.Stderr, err)
		return 2
	}
	var rec struct {
		Property string `json:"property"`
		Stream   string `json:"stream"`
		Op       M      `json:"op"`
	}
	if err := json.Unmarshal(b, &rec); err != nil {
		fmt.Fprintln(os.Stderr, err)
		return 2
	}
	opName, _ := rec.Op["op"].(string)
	fn, ok := executors[opName]
	if !ok {
		fmt.Fprintln(os.Stderr, "no executor for op", opName)
		return 2
	}
	d, err := StartDriver(driver)
	if err != nil {
		fmt.Fprintln(os.Stderr, err)
		return 2
	}
	defer d.Close()
	res := NewResult(rec.Property, "replay", 0)
	c := &Ctx{D: d, R: NewRNG(0), Res: res, Tier: "quick"}
	fn(c, rec.Stream, rec.Op)
	out, _ := json.MarshalIndent(res.Samples, "", " ")
	fmt.Println(string(out))
	if res.NDisagreements > 0 {
		fmt.Println("REPLAY: implementation and model still disagree")
		return 1
	}
	fmt.Println("REPLAY: implementation and model agree")
	return 0
}

// executors run one op on implementation and model and compare (op name -> executor). Generators
// produce ops and feed them to executors; a replay feeds a stored op to the same executor.
var executors = map[string]func(c *Ctx, stream string, op M){}
