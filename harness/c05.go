package main

import "fmt"

var expectedType = map[string]string{"none": "None", "packed-self": "Self", "packed-x5c": "Unknown", "fido-u2f": "Unknown", "tpm": "AttCA",
	"android-key": "Basic", "android-safetynet": "Basic", "apple": "AnonCA"}

// honestPair runs one honest registration (expecting acceptance with the format's attestation type) and one honest
// assertion with the same credential key.
func honestPair(c *Ctx, stream, format string, credAlg, attAlg int) {
	honestPairWith(c, stream, format, credAlg, attAlg, nil)
}

func honestPairWith(c *Ctx, stream, format string, credAlg, attAlg int, adjust func(*RegSpec)) {
	r := c.R
	s := newRegSpec(r, format, credAlg)
	s.AttAlg = attAlg
	if adjust != nil {
		adjust(s)
	}
	if r.P(1, 4) {
		// a caller's policy that admits this format and type (and little else): the honest ceremony is still accepted, and the
		// policy ends with the call — the next ceremony without options sees the defaults again
		s.VerifyOpt = []M{{"formats": []string{hx([]byte(fmtID(format)))}}, {"types": []string{hx([]byte(expectedType[format]))}}}
	}
	b := buildRegistration(r, s)
	op := b.Op()
	executors["register"](c, stream, op)
	// ground truth: honest ⇒ accepted
	truth(c, stream+".truth", op, true)
	// the statement alone: type and trust path
	aop := b.AttestOp("")
	aop["_expectType"] = expectedType[format]
	executors["attest"](c, stream+".attest", aop)
	// assertion with the registered credential
	as := newAuthSpec(r, s.Origin, b.Cred, s.CredID, s.UserID, b.Cred.COSE(s.FixedKey))
	as.Client = s.Client
	aop2 := buildAssertion(r, as)
	executors["authenticate"](c, stream+".assert", aop2)
	truthAuth(c, stream+".assert.truth", aop2, true)
}

// truth compares the implementation's accept/reject with what is known by construction.
func truth(c *Ctx, stream string, op M, expectOK bool) {
	impl := runRegisterImpl(op)
	c.Compare(stream, op, M{"ok": impl["ok"]}, M{"ok": expectOK}, fmt.Sprint(op["_fmt"]), true)
}

func truthAuth(c *Ctx, stream string, op M, expectOK bool) {
	impl := runAuthImpl(op)
	c.Compare(stream, op, M{"ok": impl["ok"]}, M{"ok": expectOK}, "assert", true)
}

func init() {
	register("C05",
		Stream{"honest.formats", func(c *Ctx) {
			reps := c.N(1, 12)
			for rep := 0; rep < reps; rep++ {
				for _, f := range allFormats {
					for _, ca := range credAlgsFor(f) {
						atts := attAlgsFor(f)
						if !c.Thorough() {
							atts = []int{pick(c.R, atts)}
						}
						for _, aa := range atts {
							honestPair(c, "honest."+f, f, ca, aa)
						}
					}
				}
			}
		}},
		Stream{"honest.credIdLength", func(c *Ctx) {
			// benign variation: credential ids of every length 0..1023 (boundaries always, the rest sampled; all of them in the thorough tier)
			lengths := []int{0, 1, 2, 15, 16, 17, 127, 128, 255, 256, 257, 1022, 1023}
			if c.Thorough() {
				lengths = nil
				for l := 0; l <= 1023; l++ {
					lengths = append(lengths, l)
				}
			} else {
				for i := 0; i < 6; i++ {
					lengths = append(lengths, c.R.Intn(1024))
				}
			}
			for _, l := range lengths {
				l := l
				f := allFormats[c.R.Intn(len(allFormats))]
				if l == 0 || l == 1023 || l == 1022 {
					for _, f2 := range []string{"none", "packed-self", "fido-u2f"} {
						ca := pick(c.R, credAlgsFor(f2))
						honestPairWith(c, "honest.credIdLength", f2, ca, pick(c.R, attAlgsFor(f2)), func(s *RegSpec) { s.CredID = c.R.Bytes(l) })
					}
				}
				ca := pick(c.R, credAlgsFor(f))
				honestPairWith(c, "honest.credIdLength", f, ca, pick(c.R, attAlgsFor(f)), func(s *RegSpec) { s.CredID = c.R.Bytes(l) })
			}
		}},
		Stream{"honest.leadingZeros", func(c *Ctx) {
			// EC credentials whose coordinates have leading zero bytes, in the formats that re-derive the point
			n := c.N(6, 120)
			for i := 0; i < n; i++ {
				for _, f := range []string{"fido-u2f", "packed-self", "tpm", "android-key", "apple", "none"} {
					s := newRegSpec(c.R, f, algES256)
					s.AttAlg = pick(c.R, attAlgsFor(f))
					s.Cred = genKeyPairOnCurve(c.R, algES256, 1, true)
					s.FixedKey = c.R.Bool() || f == "fido-u2f"
					b := buildRegistration(c.R, s)
					op := b.Op()
					executors["register"](c, "honest.leadingZeros", op)
					truth(c, "honest.leadingZeros.truth", op, true)
				}
			}
		}},
	)
}
