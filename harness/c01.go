package main

var authDeviations = []string{"cd.type", "cd.challenge", "cd.origin", "cd.malformed", "cd.memberAbsent", "ad.rpIdHash", "ad.noUP", "ad.noUV", "sig.otherKey", "sig.otherMessage",
	"sig.authDataOnly", "sig.bitflip", "sig.empty", "tamper.authData", "tamper.cdj", "id.unknown", "userHandle.foreign", "userHandle.missing", "userHandle.empty", "userHandle.lengthVariant", "cd.challengeLengthVariant", "allow.excludes", "allow.lengthVariant"}

func authCase(c *Ctx, stream string, alg int, devs ...string) {
	authCaseVar(c, stream, alg, -1, 0, devs...)
}

func authCaseVar(c *Ctx, stream string, alg int, v int, chalLen int, devs ...string) {
	r := c.R
	origin := pick(r, honestOrigins)
	var kp *KeyPair
	if kindOfAlg(alg) == "ec" {
		kp = genKeyPair(r, alg)
	} else {
		kp = genKeyPair(r, alg)
	}
	credID := r.Bytes(pick(r, []int{1, 16, 32, 64}))
	owner := r.Bytes(1 + r.Intn(12))
	s := newAuthSpec(r, origin, kp, credID, owner, kp.COSE(r.Bool()))
	s.Var = v
	if chalLen > 0 {
		s.Challenge = r.Bytes(chalLen)
	}
	name := ""
	for _, d := range devs {
		if name != "" {
			name += "+"
		}
		name += d
		s.Dev[d] = true
		if d == "ad.noUV" {
			s.UV = "required"
		}
		if d == "allow.excludes" && len(s.Allow) == 0 {
			s.Allow = [][]byte{credID}
		}
	}
	// other credentials in storage
	for i := 0; i < r.Intn(3); i++ {
		o := genKeyPair(r, pick(r, []int{algES256, algEdDSA}))
		s.Store = append(s.Store, M{"id": hx(r.Bytes(8)), "owner": hx(pick(r, [][]byte{owner, r.Bytes(4)})), "pk": hx(o.COSE(true))})
	}
	if r.P(1, 6) {
		s.Trailing = r.Bytes(1 + r.Intn(4))
	}
	op := buildAssertion(r, s)
	if name != "" {
		op["_dev"] = name
	}
	executors["authenticate"](c, stream, op)
	expect := len(devs) == 0
	for _, d := range devs {
		if d == "sig.bitflip" && kp.Kind == "ec" {
			return // DER-level flips are not asserted by construction (covered by the model comparison)
		}
	}
	truthAuth(c, stream+".truth", op, expect)
}

func init() {
	register("C01",
		Stream{"auth.honest", func(c *Ctx) {
			n := c.N(4, 120)
			for i := 0; i < n; i++ {
				for _, alg := range allAlgs {
					authCase(c, "auth.honest", alg)
				}
			}
		}},
		Stream{"auth.deviations", func(c *Ctx) {
			n := c.N(2, 60)
			for i := 0; i < n; i++ {
				for _, dv := range authDeviations {
					for _, alg := range []int{algES256, pick(c.R, allAlgs)} {
						authCase(c, "auth.dev."+dv, alg, dv)
					}
				}
			}
		}},
		Stream{"auth.deviationVariants", func(c *Ctx) {
			for _, dv := range []string{"cd.type", "cd.challenge", "cd.origin", "ad.rpIdHash"} {
				for v := 0; v < maxVariants; v++ {
					authCaseVar(c, "auth.var."+dv, pick(c.R, allAlgs), v, 0, dv)
				}
			}
			for l := 1; l <= 6; l++ {
				for v := 0; v < maxVariants; v++ {
					authCaseVar(c, "auth.var.cd.challenge.len", algES256, v, l, "cd.challenge")
				}
			}
		}},
		Stream{"auth.combinations", func(c *Ctx) {
			n := c.N(150, 8000)
			for i := 0; i < n; i++ {
				authCase(c, "auth.combinations", pick(c.R, allAlgs), pick(c.R, authDeviations), pick(c.R, authDeviations))
			}
		}},
		Stream{"auth.mutated", func(c *Ctx) {
			n := c.N(500, 40000)
			r := c.R
			for i := 0; i < n; i++ {
				kp := genKeyPair(r, pick(r, []int{algES256, algEdDSA, algES384, algRS256}))
				credID, owner := r.Bytes(16), r.Bytes(8)
				s := newAuthSpec(r, pick(r, honestOrigins), kp, credID, owner, kp.COSE(true))
				op := buildAssertion(r, s)
				f := pick(r, []string{"cdj", "authData", "sig", "userHandle", "rawId"})
				op[f] = hx(mutate(r, unhx(op[f].(string))))
				if r.P(1, 10) {
					// mutated stored key
					st := s.Store[0]
					st["pk"] = hx(mutate(r, unhx(st["pk"].(string))))
				}
				op["_dev"] = "mutated." + f
				executors["authenticate"](c, "auth.mutated", op)
			}
		}},
	)
}
