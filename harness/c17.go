package main

import (
	"bytes"
	"crypto/x509"
	"crypto/x509/pkix"
	"encoding/asn1"
	"fmt"
	"reflect"
	"sort"

	"github.com/pomerium/webauthn/android"
	"github.com/pomerium/webauthn/tpm"
)

// sanView parses the SAN extensions of a certificate with encoding/asn1 directly (the dependency), producing the
// view the model consumes.
func sanView(cert *x509.Certificate) []M {
	var out []M
	for _, ext := range cert.Extensions {
		if !ext.Id.Equal(oidSANExt) {
			continue
		}
		var seq []asn1.RawValue
		rest, err := asn1.Unmarshal(ext.Value, &seq)
		if err != nil || len(rest) > 0 {
			out = append(out, M{"bad": true})
			continue
		}
		names := []M{}
		for _, v := range seq {
			n := M{"cls": v.Class, "tag": v.Tag, "rdn": nil}
			var name pkix.RDNSequence
			if _, err := asn1.Unmarshal(v.Bytes, &name); err == nil {
				attrs := []M{}
				for _, set := range name {
					for _, a := range set {
						s, ok := a.Value.(string)
						attrs = append(attrs, M{"oid": oidInts(a.Type), "isString": ok, "value": hx([]byte(s))})
					}
				}
				n["rdn"] = attrs
			}
			names = append(names, n)
		}
		out = append(out, M{"names": names})
	}
	if out == nil {
		out = []M{}
	}
	return out
}

func init() {
	executors["vendorId"] = func(c *Ctx, stream string, op M) {
		s := unhx(op["s"].(string))
		model := c.Call(op)
		delete(model, "id")
		id, err := tpm.UnmarshalVendorID(string(s))
		impl := M{"ok": err == nil}
		if err == nil {
			impl["vid"] = hx(id[:])
		}
		class := "reject"
		if err == nil {
			class = "accept"
		}
		c.Compare(stream, op, impl, model, class, len(s) >= 3)
	}
	executors["hwDetails"] = func(c *Ctx, stream string, op M) {
		der := unhx(op["cert"].(string))
		cert, err := x509.ParseCertificate(der)
		if err != nil {
			return
		}
		mop := M{"op": "hwDetails", "sans": sanView(cert)}
		model := c.Call(mop)
		delete(model, "id")
		impl := guard(func() M {
			d, err := tpm.GetHardwareDetailsFromCertificate(cert)
			if err != nil || d == nil {
				return M{"ok": false}
			}
			return M{"ok": true, "vendorId": hx(d.Manufacturer.ID[:]), "vendorName": d.Manufacturer.Name, "part": hx([]byte(d.PartNumber)), "fw": hx([]byte(d.FirmwareVersion))}
		})
		class := "reject"
		if ok, _ := model["ok"].(bool); ok {
			class = "accept"
		}
		if dv, ok := op["_dev"].(string); ok {
			class += "/" + dv
		}
		c.Compare(stream, op, impl, model, class, true)
		if ex, ok := op["_expect"].(bool); ok {
			c.Compare(stream+".truth", op, M{"ok": impl["ok"]}, M{"ok": ex}, class, true)
		}
	}
	executors["keyDesc"] = func(c *Ctx, stream string, op M) {
		// ground truth by construction: `fields` is what the encoder put in
		der := unhx(op["der"].(string))
		want := op["fields"].(M)
		impl := guard(func() M {
			kd, rest, err := android.UnmarshalKeyDescription(der)
			if err != nil {
				return M{"ok": false}
			}
			back, merr := kd.Marshal()
			out := M{"ok": true, "rest": hx(rest), "challenge": hx(kd.AttestationChallenge), "swAll": bool(kd.SoftwareEnforced.AllApplications),
				"teeAll": bool(kd.TeeEnforced.AllApplications), "teeOrigin": kd.TeeEnforced.Origin, "teePurpose": append([]int{}, kd.TeeEnforced.Purpose...),
				"teeNoAuth": bool(kd.TeeEnforced.NoAuthRequired), "osVersion": kd.TeeEnforced.OSVersion, "keySize": kd.TeeEnforced.KeySize,
				"attVersion": kd.AttestationVersion, "secLevel": int(kd.AttestationSecurityLevel), "brand": hx(kd.TeeEnforced.AttestationIDBrand),
				"rotLocked": kd.TeeEnforced.RootOfTrust.DeviceLocked, "rotKey": hx(kd.TeeEnforced.RootOfTrust.VerifiedBootKey), "swCreation": kd.SoftwareEnforced.CreationDateTime}
			if op["_goStyle"] == true {
				// Unmarshal is the inverse of Marshal: Unmarshal(Marshal(kd)) = kd (an explicitly encoded optional zero, e.g.
				// origin GENERATED = 0, is not re-emitted by Marshal, so byte equality is not demanded)
				eq := false
				if merr == nil {
					kd2, rest2, err2 := android.UnmarshalKeyDescription(back)
					eq = err2 == nil && len(rest2) == 0 && reflect.DeepEqual(normKD(kd), normKD(kd2))
				}
				out["remarshalEqual"] = eq
			}
			return out
		})
		class := fmt.Sprint(op["_dev"])
		c.Compare(stream, op, impl, want, class, true)
	}
}

// ---------- independent DER encoder (hand-written; does not use encoding/asn1) ----------

func derLen(n int) []byte {
	if n < 128 {
		return []byte{byte(n)}
	}
	var b []byte
	for v := n; v > 0; v >>= 8 {
		b = append([]byte{byte(v)}, b...)
	}
	return append([]byte{0x80 | byte(len(b))}, b...)
}

func derTLV(class int, constructed bool, tag int, content []byte) []byte {
	first := byte(class << 6)
	if constructed {
		first |= 0x20
	}
	var out []byte
	if tag < 31 {
		out = []byte{first | byte(tag)}
	} else {
		out = []byte{first | 0x1f}
		var b []byte
		for v := tag; ; v >>= 7 {
			x := byte(v & 0x7f)
			if len(b) > 0 {
				x |= 0x80
			}
			b = append([]byte{x}, b...)
			if v < 128 {
				break
			}
		}
		out = append(out, b...)
	}
	out = append(out, derLen(len(content))...)
	return append(out, content...)
}

func derInt(v int64) []byte {
	// minimal two's complement
	var b []byte
	for {
		b = append([]byte{byte(v)}, b...)
		if v >= -128 && v < 128 {
			break
		}
		v >>= 8
	}
	return derTLV(0, false, 2, b)
}
func derEnum(v int64) []byte {
	t := derInt(v)
	t[0] = 0x0a
	return t
}
func derOctets(b []byte) []byte { return derTLV(0, false, 4, b) }
func derNull() []byte           { return []byte{0x05, 0x00} }
func derBool(b bool) []byte {
	if b {
		return []byte{0x01, 0x01, 0xff}
	}
	return []byte{0x01, 0x01, 0x00}
}
func derSeq(items ...[]byte) []byte { return derTLV(0, true, 16, bytes.Join(items, nil)) }
func derSet(items ...[]byte) []byte { return derTLV(0, true, 17, bytes.Join(items, nil)) }
func derExplicit(tag int, inner []byte) []byte {
	return derTLV(2, true, tag, inner)
}

// goFlag is how encoding/asn1 itself writes an asn1.Flag under an explicit tag
func goFlag(tag int) []byte { return derExplicit(tag, []byte{0x01, 0x00}) }

type kdSpec struct {
	attVersion, secLevel int
	challenge            []byte
	swAll, teeAll        bool
	teeNoAuth            bool
	teeOrigin            int
	hasOrigin            bool
	teePurpose           []int
	keySize, osVersion   int
	brand                []byte
	rot                  bool
	rotKey               []byte
	rotLocked            bool
	swCreation           int
	nullStyle            string // "go" (encoding/asn1's own flag form) | "schema" (EXPLICIT NULL, as published)
	teeExtra             [][]byte // further elements of the TEE list, placed after keySize [3] (tags the library's struct does not have)
}

func (k kdSpec) authList(tee bool) []byte {
	var items [][]byte
	flag := func(tag int) []byte {
		if k.nullStyle == "schema" {
			return derExplicit(tag, derNull())
		}
		return goFlag(tag)
	}
	if tee {
		if k.teePurpose != nil {
			var ps [][]byte
			sorted := append([]int{}, k.teePurpose...)
			sort.Ints(sorted) // DER: SET OF elements in ascending order of their encodings (single-byte integers here)
			for _, p := range sorted {
				ps = append(ps, derInt(int64(p)))
			}
			items = append(items, derExplicit(1, derSet(ps...)))
		}
		if k.keySize != 0 {
			items = append(items, derExplicit(3, derInt(int64(k.keySize))))
		}
		items = append(items, k.teeExtra...)
		if k.teeNoAuth {
			items = append(items, flag(503))
		}
		if k.teeAll {
			items = append(items, flag(600))
		}
		if k.hasOrigin {
			items = append(items, derExplicit(702, derInt(int64(k.teeOrigin))))
		}
		if k.rot {
			items = append(items, derExplicit(704, derSeq(derOctets(k.rotKey), derBool(k.rotLocked), derEnum(0), derOctets([]byte{1, 2, 3}))))
		}
		if k.osVersion != 0 {
			items = append(items, derExplicit(705, derInt(int64(k.osVersion))))
		}
		if k.brand != nil {
			items = append(items, derExplicit(710, derOctets(k.brand)))
		}
	} else {
		if k.swAll {
			items = append(items, flag(600))
		}
		if k.swCreation != 0 {
			items = append(items, derExplicit(701, derInt(int64(k.swCreation))))
		}
	}
	return derSeq(items...)
}

func (k kdSpec) DER() []byte {
	return derSeq(derInt(int64(k.attVersion)), derEnum(int64(k.secLevel)), derInt(4), derEnum(1), derOctets(k.challenge), derOctets(nil), k.authList(false), k.authList(true))
}

func (k kdSpec) fields() M {
	purpose := []int{}
	purpose = append(purpose, k.teePurpose...)
	sort.Ints(purpose)
	origin := 0
	if k.hasOrigin {
		origin = k.teeOrigin
	}
	return M{"ok": true, "rest": "", "challenge": hx(k.challenge), "swAll": k.swAll, "teeAll": k.teeAll, "teeOrigin": origin, "teePurpose": purpose,
		"teeNoAuth": k.teeNoAuth, "osVersion": k.osVersion, "keySize": k.keySize, "attVersion": k.attVersion, "secLevel": k.secLevel, "brand": hx(k.brand),
		"rotLocked": k.rot && k.rotLocked, "rotKey": hx(func() []byte {
			if k.rot {
				return k.rotKey
			}
			return nil
		}()), "swCreation": k.swCreation}
}

func genKD(r *RNG, style string) kdSpec {
	k := kdSpec{attVersion: 1 + r.Intn(200), secLevel: r.Intn(3), challenge: r.Bytes(r.Intn(40)), nullStyle: style}
	k.swAll, k.teeAll, k.teeNoAuth = r.P(1, 4), r.P(1, 4), r.P(1, 3)
	if r.P(3, 4) {
		k.hasOrigin, k.teeOrigin = true, r.Intn(4)
	}
	if r.P(3, 4) {
		n := r.Intn(4)
		k.teePurpose = []int{}
		seen := map[int]bool{}
		for i := 0; i < n; i++ {
			p := r.Intn(8)
			if !seen[p] {
				seen[p] = true
				k.teePurpose = append(k.teePurpose, p)
			}
		}
		if len(k.teePurpose) == 0 {
			k.teePurpose = nil
		}
	}
	if r.Bool() {
		k.keySize = pick(r, []int{256, 2048, 70000})
	}
	if r.Bool() {
		k.osVersion = pick(r, []int{90000, 110000, 1})
	}
	if r.P(1, 3) {
		k.brand = r.Bytes(1 + r.Intn(6))
	}
	if r.P(1, 3) {
		k.rot, k.rotKey, k.rotLocked = true, r.Bytes(32), r.Bool()
	}
	if r.Bool() {
		k.swCreation = 1600000000 + r.Intn(1000000)
	}
	return k
}

func init() {
	vrun := func(c *Ctx, stream, s string) {
		executors["vendorId"](c, stream, M{"op": "vendorId", "s": hx([]byte(s))})
	}
	register("C17",
		Stream{"vendorId.exhaustive", func(c *Ctx) {
			alphabet := []string{"i", "d", ":", "0", "A", "f", "G", "g", " ", "é"}
			maxLen := c.N(4, 6)
			var rec func(prefix string, d int)
			count := 0
			rec = func(prefix string, d int) {
				vrun(c, "vendorId.exhaustive", prefix)
				count++
				if d == 0 {
					return
				}
				for _, a := range alphabet {
					rec(prefix+a, d-1)
				}
			}
			rec("", maxLen)
			// all strings "id:" + 8 characters over a smaller alphabet around the accepted length
			small := []string{"0", "A", "f", "G"}
			var rec2 func(prefix string, d int)
			rec2 = func(prefix string, d int) {
				if d == 0 {
					vrun(c, "vendorId.exhaustive", "id:"+prefix)
					count++
					return
				}
				for _, a := range small {
					rec2(prefix+a, d-1)
				}
			}
			rec2("", c.N(6, 8))
			c.Res.mu.Lock()
			c.Res.Exhaustive = append(c.Res.Exhaustive, fmt.Sprintf("all %d strings of length <= %d over a 10-symbol alphabet, and \"id:\" + all strings of length %d over {0,A,f,G}", count, maxLen, c.N(6, 8)))
			c.Res.mu.Unlock()
		}},
		Stream{"vendorId.sampled", func(c *Ctx) {
			n := c.N(3000, 200000)
			for i := 0; i < n; i++ {
				v := uint32(c.R.U64())
				var s string
				switch i % 8 {
				case 0:
					s = fmt.Sprintf("id:%08X", v)
				case 1:
					s = fmt.Sprintf("id:%08x", v)
				case 2:
					s = fmt.Sprintf("ID:%08X", v)
				case 3:
					s = fmt.Sprintf("id:%07X", v>>4)
				case 4:
					s = fmt.Sprintf("id:%08X0", v)
				case 5:
					s = fmt.Sprintf("id;%08X", v)
				case 6:
					s = string(mutate(c.R, []byte(fmt.Sprintf("id:%08X", v))))
				default:
					s = fmt.Sprintf(" id:%08X", v)[:11]
				}
				vrun(c, "vendorId.sampled", s)
			}
		}},
		Stream{"hwDetails", func(c *Ctx) {
			r := c.R
			kp := genKeyPairOnCurve(r, algES256, 1, false)
			registered := []string{"id:414D4400", "id:494E5443", "id:FFFFF1D0", "id:4e544300", "id:53544D20"}
			unregistered := []string{"id:00000000", "id:12345678", "id:414D4401", "AMD", "id:414D44", "id:414D440000", ""}
			n := c.N(1, 30)
			for rep := 0; rep < n; rep++ {
				// every subset and order of the three attributes
				base := []tpmAttr{{oidTPMMfr, pick(r, registered)}, {oidTPMModel, "NPCT6xx"}, {oidTPMVersion, "id:13"}}
				for mask := 0; mask < 8; mask++ {
					var sub []tpmAttr
					for i := 0; i < 3; i++ {
						if mask&(1<<uint(i)) != 0 {
							sub = append(sub, base[i])
						}
					}
					for _, order := range [][]tpmAttr{sub, permute(r, sub)} {
						for _, extra := range []int{0, 1} {
							before, after := extra*r.Intn(3), extra*r.Intn(3)
							ext := pkix.Extension{Id: oidSANExt, Value: tpmSANValue(order, asn1.ClassContextSpecific, 4, before, after)}
							der := makeCert(kp.Public(), CertSpec{Extensions: []pkix.Extension{ext}})
							op := M{"op": "hwDetails", "cert": hx(der), "_dev": fmt.Sprintf("subset%d", mask), "_expect": mask == 7}
							executors["hwDetails"](c, "hwDetails.subsets", op)
						}
					}
				}
				// unregistered / malformed vendors, empty model / version, duplicates (last wins), non-string values
				for _, v := range unregistered {
					attrs := []tpmAttr{{oidTPMMfr, v}, {oidTPMModel, "m"}, {oidTPMVersion, "v"}}
					der := makeCert(kp.Public(), CertSpec{Extensions: []pkix.Extension{tpmSAN(attrs)}})
					executors["hwDetails"](c, "hwDetails.vendors", M{"op": "hwDetails", "cert": hx(der), "_dev": "unregistered", "_expect": false})
				}
				for _, attrs := range [][]tpmAttr{
					{{oidTPMMfr, registered[0]}, {oidTPMModel, ""}, {oidTPMVersion, "v"}},
					{{oidTPMMfr, registered[0]}, {oidTPMModel, "m"}, {oidTPMVersion, ""}},
					{{oidTPMMfr, registered[0]}, {oidTPMMfr, registered[1]}, {oidTPMModel, "m1"}, {oidTPMModel, "m2"}, {oidTPMVersion, "v"}},
					{{oidTPMMfr, registered[0]}, {oidTPMMfr, "id:00000000"}, {oidTPMModel, "m"}, {oidTPMVersion, "v"}},
					{{oidTPMMfr, "id:00000000"}, {oidTPMMfr, registered[0]}, {oidTPMModel, "m"}, {oidTPMVersion, "v"}},
					{{oidTPMMfr, registered[0]}, {oidTPMModel, "m"}, {oidTPMModel, ""}, {oidTPMVersion, "v"}},
					{{asn1.ObjectIdentifier{2, 5, 4, 3}, "cn"}, {oidTPMMfr, registered[2]}, {oidTPMModel, "m"}, {oidTPMVersion, "v"}},
				} {
					der := makeCert(kp.Public(), CertSpec{Extensions: []pkix.Extension{tpmSAN(attrs)}})
					executors["hwDetails"](c, "hwDetails.shapes", M{"op": "hwDetails", "cert": hx(der), "_dev": "shape"})
				}
				// class / tag of the general name: only context-specific [4] is a directoryName
				for _, ct := range [][2]int{{asn1.ClassContextSpecific, 4}, {asn1.ClassUniversal, 4}, {asn1.ClassApplication, 4}, {asn1.ClassPrivate, 4}, {asn1.ClassContextSpecific, 3}, {asn1.ClassContextSpecific, 5}, {asn1.ClassUniversal, 16}} {
					ext := pkix.Extension{Id: oidSANExt, Value: tpmSANValue(base, ct[0], ct[1], 0, 0)}
					der := makeCert(kp.Public(), CertSpec{Extensions: []pkix.Extension{ext}})
					executors["hwDetails"](c, "hwDetails.class", M{"op": "hwDetails", "cert": hx(der), "_dev": fmt.Sprintf("class%d-tag%d", ct[0], ct[1]),
						"_expect": ct[0] == asn1.ClassContextSpecific && ct[1] == 4})
				}
				// two directory names: the first decides; malformed SAN; trailing data; no SAN
				bad := []tpmAttr{{oidTPMMfr, "id:00000000"}, {oidTPMModel, "m"}, {oidTPMVersion, "v"}}
				two := func(first, second []tpmAttr) []byte {
					mk := func(attrs []tpmAttr) asn1.RawValue {
						var rdns pkix.RDNSequence
						for _, a := range attrs {
							rdns = append(rdns, pkix.RelativeDistinguishedNameSET{{Type: a.OID, Value: a.Val}})
						}
						b, _ := asn1.Marshal(rdns)
						return asn1.RawValue{Class: asn1.ClassContextSpecific, Tag: 4, IsCompound: true, Bytes: b}
					}
					v, _ := asn1.Marshal([]asn1.RawValue{mk(first), mk(second)})
					return v
				}
				for i, val := range [][]byte{two(base, bad), two(bad, base), append(tpmSANValue(base, asn1.ClassContextSpecific, 4, 0, 0), 0x05, 0x00), {0x30, 0x03, 0x02, 0x01}, {0x04, 0x01, 0x00}} {
					der := makeCert(kp.Public(), CertSpec{Extensions: []pkix.Extension{{Id: oidSANExt, Value: val}}})
					exp := i == 0
					executors["hwDetails"](c, "hwDetails.structure", M{"op": "hwDetails", "cert": hx(der), "_dev": fmt.Sprintf("structure%d", i), "_expect": exp})
				}
				der := makeCert(kp.Public(), CertSpec{})
				executors["hwDetails"](c, "hwDetails.structure", M{"op": "hwDetails", "cert": hx(der), "_dev": "noSAN", "_expect": false})
			}
		}},
		Stream{"hwDetails.allVendors", func(c *Ctx) {
			// every vendor of the reviewed registry table is accepted; neighbours of each id (one bit flipped) are not, unless registered themselves
			kp := genKeyPairOnCurve(c.R, algES256, 1, false)
			reviewed := []uint32{0x414D4400, 0x41544D4C, 0x4252434D, 0x4353434F, 0x464C5953, 0x48504500, 0x49424D00, 0x49465800, 0x494E5443, 0x4C454E00,
				0x4D534654, 0x4E534D20, 0x4E545A00, 0x4E544300, 0x51434F4D, 0x534D5343, 0x53544D20, 0x534D534E, 0x534E5300, 0x54584E00, 0x57454300,
				0x524F4343, 0x474F4F47, 0xFFFFF1D0}
			isReviewed := map[uint32]bool{}
			for _, v := range reviewed {
				isReviewed[v] = true
			}
			run := func(id uint32, expect bool, dev string) {
				attrs := []tpmAttr{{oidTPMMfr, fmt.Sprintf("id:%08X", id)}, {oidTPMModel, "m"}, {oidTPMVersion, "v"}}
				der := makeCert(kp.Public(), CertSpec{Extensions: []pkix.Extension{tpmSAN(attrs)}})
				executors["hwDetails"](c, "hwDetails.allVendors", M{"op": "hwDetails", "cert": hx(der), "_dev": dev, "_expect": expect})
			}
			for _, v := range reviewed {
				run(v, true, "reviewed-vendor")
				n := v ^ (1 << uint(c.R.Intn(32)))
				run(n, isReviewed[n], "neighbour")
				// the id with its padding spelt the other way (NUL for space, space for NUL), in each byte position, and lower-cased letters:
				// a different 32-bit id, registered only if the table says so
				for pos := 0; pos < 4; pos++ {
					b := byte(v >> uint(8*pos))
					for _, alt := range []byte{0x00, 0x20, b ^ 0x20} {
						if alt == b {
							continue
						}
						m := v&^(0xFF<<uint(8*pos)) | uint32(alt)<<uint(8*pos)
						run(m, isReviewed[m], "padding-or-case-variant")
					}
				}
			}
		}},
		Stream{"keyDesc.goStyle", func(c *Ctx) {
			// encoded by the independent encoder in encoding/asn1's own flag form: must decode to exactly these fields, and re-Marshal byte for byte
			n := c.N(600, 30000)
			for i := 0; i < n; i++ {
				k := genKD(c.R, "go")
				f := k.fields()
				f["remarshalEqual"] = true
				op := M{"op": "keyDesc", "der": hx(k.DER()), "fields": f, "_dev": "goStyle", "_goStyle": true}
				executors["keyDesc"](c, "keyDesc.goStyle", op)
			}
		}},
		Stream{"keyDesc.published", func(c *Ctx) {
			// encoded as the published schema says (NULL-typed elements as EXPLICIT NULL): descriptions WITHOUT any NULL-typed element
			// must decode exactly; descriptions with one are the recorded finding D14
			n := c.N(400, 20000)
			for i := 0; i < n; i++ {
				k := genKD(c.R, "schema")
				dev := "published/no-null-element"
				if k.swAll || k.teeAll || k.teeNoAuth {
					dev = "published/explicit-null"
				}
				op := M{"op": "keyDesc", "der": hx(k.DER()), "fields": k.fields(), "_dev": dev}
				executors["keyDesc"](c, "keyDesc.published", op)
			}
		}},
	)
}

// normKD maps nil and empty slices to one form (Go's asn1 decodes absent OCTET STRINGs to nil and present-but-empty ones to empty)
func normKD(kd *android.KeyDescription) string {
	return fmt.Sprintf("%+v", *kd)
}
