package main

import (
	"context"
	"fmt"
	"sort"

	"github.com/pomerium/webauthn"
	"github.com/pomerium/webauthn/cose"
)

// C07: histories over a universe of users, authenticators and credential ids against one RelyingParty with the real
// InMemoryCredentialStorage; every step's outcome and the storage contents are compared with the reference machine.

type hAuthenticator struct {
	format string
	key    *KeyPair
	attAlg int
}

func dumpInMemory(st *webauthn.InMemoryCredentialStorage, ids [][]byte) []M {
	out := []M{}
	seen := map[string]bool{}
	for _, id := range ids {
		if seen[string(id)] {
			continue
		}
		seen[string(id)] = true
		c, err := st.GetCredential(context.Background(), id)
		if err == nil && c != nil {
			out = append(out, credObs(c))
		}
	}
	sort.Slice(out, func(i, j int) bool { return out[i]["id"].(string) < out[j]["id"].(string) })
	return out
}

func runHistoryImpl(origin string, ops []M) []M {
	st := webauthn.NewInMemoryCredentialStorage()
	rp := webauthn.NewRelyingParty(origin, st)
	var ids [][]byte
	var steps []M
	for _, op := range ops {
		ids = append(ids, unhx(op["rawId"].(string)))
		step := guard(func() M {
			var res *webauthn.Credential
			var err error
			if op["kind"] == "register" {
				opts := &webauthn.PublicKeyCredentialCreationOptions{Challenge: unhx(op["challenge"].(string)),
					User: webauthn.PublicKeyCredentialUserEntity{ID: unhx(op["userId"].(string))}}
				for _, a := range intList(op["algs"]) {
					opts.PubKeyCredParams = append(opts.PubKeyCredParams, webauthn.PublicKeyCredentialParameters{Type: "public-key", COSEAlgorithmIdentifier: cose.Algorithm(a)})
				}
				if uv, ok := op["authSelUV"].(string); ok {
					opts.AuthenticatorSelection = &webauthn.AuthenticatorSelectionCriteria{UserVerification: webauthn.UserVerificationRequirement(unhx(uv))}
				}
				cred := &webauthn.PublicKeyCreationCredential{RawID: unhx(op["rawId"].(string)),
					Response: webauthn.AuthenticatorAttestationResponse{ClientDataJSON: unhx(op["cdj"].(string)), AttestationObject: unhx(op["attObj"].(string))}}
				res, err = rp.VerifyRegistrationCeremony(context.Background(), opts, cred)
			} else {
				opts := &webauthn.PublicKeyCredentialRequestOptions{Challenge: unhx(op["challenge"].(string)),
					UserVerification: webauthn.UserVerificationRequirement(unhx(op["uv"].(string)))}
				for i, id := range hexList(op["allow"]) {
					opts.AllowCredentials = append(opts.AllowCredentials, webauthn.PublicKeyCredentialDescriptor{Type: descriptorType(op, i), ID: id})
				}
				cred := &webauthn.PublicKeyAssertionCredential{RawID: unhx(op["rawId"].(string)),
					Response: webauthn.AuthenticatorAssertionResponse{ClientDataJSON: unhx(op["cdj"].(string)), AuthenticatorData: unhx(op["authData"].(string)),
						Signature: unhx(op["sig"].(string)), UserHandle: unhx(op["userHandle"].(string))}}
				res, err = rp.VerifyAuthenticationCeremony(context.Background(), opts, cred)
			}
			if err != nil || res == nil {
				return M{"out": nil}
			}
			return M{"out": credObs(res)}
		})
		step["store"] = dumpInMemory(st, ids)
		steps = append(steps, step)
	}
	return steps
}

func init() {
	executors["history"] = func(c *Ctx, stream string, op M) {
		model := c.Call(op)
		var ops []M
		switch l := op["ops"].(type) {
		case []M:
			ops = l
		case []any:
			for _, e := range l {
				ops = append(ops, e.(M))
			}
		}
		impl := runHistoryImpl(string(unhx(op["origin"].(string))), ops)
		msteps, _ := model["steps"].([]any)
		var implObs, specObs, modelObs []M
		accepts := 0
		for i, s := range impl {
			implObs = append(implObs, M{"out": s["out"], "store": s["store"]})
			if i < len(msteps) {
				ms := msteps[i].(M)
				specObs = append(specObs, M{"out": ms["spec"], "store": sortStore(ms["specState"])})
				modelObs = append(modelObs, M{"out": ms["model"], "store": sortStore(ms["modelStore"])})
			}
			if s["out"] != nil {
				accepts++
			}
		}
		class := fmt.Sprintf("len%d-accepts%d", len(ops), accepts)
		if len(ops) > 8 {
			class = fmt.Sprintf("len>8-accepts>=%d", accepts/4*4)
		}
		// the property: implementation = reference machine, step by step
		c.Compare(stream, op, M{"steps": implObs}, M{"steps": specObs}, class, accepts > 0)
		// the tie: implementation = model
		c.Compare(stream+".model", op, M{"steps": implObs}, M{"steps": modelObs}, class, accepts > 0)
	}
}

type hUniverse struct {
	origin string
	users  [][]byte
	auths  []*hAuthenticator
	ids    [][]byte
	// past responses for replay
	past []M
	// which authenticator key was last successfully registered for an id is not tracked here: the reference machine decides
}

func newUniverse(r *RNG, nUsers, nAuth, nIDs int) *hUniverse {
	u := &hUniverse{origin: pick(r, honestOrigins)}
	near := r.P(1, 3)
	for i := 0; i < nUsers; i++ {
		if near && i > 0 {
			// user handles that differ only by trailing NUL bytes, or by a 256-byte tail: different users all the same
			tail := pick(r, [][]byte{make([]byte, i), make([]byte, 256*i), append(make([]byte, 255), byte(i))})
			u.users = append(u.users, append(append([]byte{}, u.users[0]...), tail...))
			continue
		}
		u.users = append(u.users, []byte(fmt.Sprintf("user-%d", i)))
	}
	fmts := []string{"none", "packed-self", "packed-x5c", "fido-u2f", "none", "packed-self"}
	for i := 0; i < nAuth; i++ {
		f := fmts[i%len(fmts)]
		alg := pick(r, credAlgsFor(f))
		var kp *KeyPair
		if f == "fido-u2f" {
			kp = genKeyPairOnCurve(r, algES256, 1, false)
		} else {
			kp = genKeyPair(r, alg)
		}
		u.auths = append(u.auths, &hAuthenticator{format: f, key: kp, attAlg: pick(r, attAlgsFor(f))})
	}
	for i := 0; i < nIDs; i++ {
		u.ids = append(u.ids, []byte(fmt.Sprintf("cred-%d", i)))
	}
	return u
}

func (u *hUniverse) regOp(r *RNG, user []byte, a *hAuthenticator, id []byte, dev string) M {
	s := newRegSpec(r, a.format, a.key.Alg)
	s.Origin, s.Client = u.origin, u.origin
	s.AttAlg = a.attAlg
	s.Cred = a.key
	s.UserID = user
	s.CredID = id
	s.Algs = allAlgs
	if dev != "" {
		s.Dev[dev] = true
		if dev == "ad.noUV" {
			uv := "required"
			s.AuthSelUV = &uv
		}
	}
	b := buildRegistration(r, s)
	op := b.Op()
	op["kind"] = "register"
	delete(op, "op")
	delete(op, "store")
	return op
}

func (u *hUniverse) authOp(r *RNG, user []byte, a *hAuthenticator, id []byte, dev string) M {
	s := newAuthSpec(r, u.origin, a.key, id, user, nil)
	if dev != "" {
		s.Dev[dev] = true
		if dev == "ad.noUV" {
			s.UV = "required"
		}
	}
	if len(s.Allow) > 0 {
		s.Allow = [][]byte{id}
	}
	op := buildAssertion(r, s)
	op["kind"] = "authenticate"
	delete(op, "op")
	delete(op, "store")
	return op
}

func (u *hUniverse) randomOp(r *RNG) M {
	user, a, id := pick(r, u.users), pick(r, u.auths), pick(r, u.ids)
	var op M
	switch r.Intn(14) {
	case 0, 1, 2:
		op = u.regOp(r, user, a, id, "")
	case 3, 4, 5:
		op = u.authOp(r, user, a, id, "")
	case 6:
		op = u.authOp(r, user, a, id, pick(r, authDeviations))
	case 7:
		op = u.regOp(r, user, a, id, pick(r, regDeviations[:18]))
	case 10:
		op = u.authOp(r, user, a, id, "userHandle.missing") // authenticate without a user handle
	case 11:
		op = u.authOp(r, user, a, id, "userHandle.foreign") // authenticate as another user
	case 12:
		op = u.authOp(r, user, a, id, "sig.otherKey") // authenticate with another key
	case 13:
		op = u.authOp(r, user, a, id, "userHandle.empty")
	default:
		if len(u.past) > 0 {
			return pick(r, u.past) // replayed ceremony
		}
		op = u.regOp(r, user, a, id, "")
	}
	u.past = append(u.past, op)
	return op
}

func init() {
	register("C07",
		Stream{"history.random", func(c *Ctx) {
			n := c.N(40, 1500)
			length := c.N(30, 80)
			for i := 0; i < n; i++ {
				u := newUniverse(c.R, 3, 4, 3)
				var ops []M
				for j := 0; j < length; j++ {
					ops = append(ops, u.randomOp(c.R))
				}
				executors["history"](c, "history.random", M{"op": "history", "origin": hx([]byte(u.origin)), "ops": ops})
			}
		}},
		Stream{"history.rekey", func(c *Ctx) {
			// one owner, one credential id, several authenticators: the owner re-registers the id again and again, with authentications
			// by the current and by earlier keys in between (any state kept beside the stored binding — a cache, a memo — shows here)
			n := c.N(60, 3000)
			for i := 0; i < n; i++ {
				u := newUniverse(c.R, 2, 3, 1)
				owner, id := u.users[0], u.ids[0]
				var ops []M
				length := 5 + c.R.Intn(6)
				ops = append(ops, u.regOp(c.R, owner, u.auths[0], id, ""), u.authOp(c.R, owner, pick(c.R, u.auths), id, ""))
				for j := 0; j < length; j++ {
					a := pick(c.R, u.auths)
					switch c.R.Intn(6) {
					case 0, 1:
						ops = append(ops, u.regOp(c.R, owner, a, id, ""))
					case 2:
						ops = append(ops, u.regOp(c.R, u.users[1], a, id, "")) // another user tries to take the id
					default:
						ops = append(ops, u.authOp(c.R, owner, a, id, ""))
					}
				}
				executors["history"](c, "history.rekey", M{"op": "history", "origin": hx([]byte(u.origin)), "ops": ops})
			}
		}},
		Stream{"history.exhaustive", func(c *Ctx) {
			// all histories up to a bounded depth over a 2-user / 2-authenticator / 2-id universe with ops {register, authenticate}
			depth := c.N(3, 4)
			u := newUniverse(c.R, 2, 2, 2)
			var alphabet []M
			ids := u.ids
			if !c.Thorough() {
				ids = ids[:1]
			}
			for _, user := range u.users {
				for _, a := range u.auths {
					for _, id := range ids {
						alphabet = append(alphabet, u.regOp(c.R, user, a, id, ""), u.authOp(c.R, user, a, id, ""),
							u.authOp(c.R, user, a, id, "userHandle.missing"), u.authOp(c.R, user, a, id, "userHandle.foreign"))
					}
				}
			}
			var rec func(prefix []M, d int)
			count := 0
			rec = func(prefix []M, d int) {
				if d == 0 {
					return
				}
				for _, op := range alphabet {
					h := append(append([]M{}, prefix...), op)
					if d == 1 {
						executors["history"](c, "history.exhaustive", M{"op": "history", "origin": hx([]byte(u.origin)), "ops": h})
						count++
					}
					rec(h, d-1)
				}
			}
			// histories of exactly `depth` steps contain all shorter ones as prefixes (each step is compared)
			if c.Thorough() {
				depth = 3 // 32-op alphabet: 32768 histories
			}
			rec(nil, depth)
			c.Res.mu.Lock()
			c.Res.Exhaustive = append(c.Res.Exhaustive, fmt.Sprintf("all %d histories of depth %d over an alphabet of %d ceremonies", count, depth, len(alphabet)))
			c.Res.mu.Unlock()
		}},
	)
}
