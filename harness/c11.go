package main

import (
	"crypto/ecdsa"
	"crypto/ed25519"
	"crypto/rsa"
	"errors"
	"fmt"
	"math/big"

	"github.com/pomerium/webauthn/cose"
)

func coseErrClass(err error) string {
	switch {
	case errors.Is(err, cose.ErrInvalidPublicKey):
		return "invalidKey"
	case errors.Is(err, cose.ErrUnsupportedKeyType):
		return "unsupportedKeyType"
	case errors.Is(err, cose.ErrUnsupportedAlgorithm):
		return "unsupportedAlgorithm"
	case errors.Is(err, cose.ErrUnsupportedCurve):
		return "unsupportedCurve"
	}
	return "NO-SENTINEL"
}

func coseKeyObs(k cose.PublicKey) M {
	out := M{"kty": int(k.Type()), "alg": int(k.Algorithm())}
	switch pk := k.CryptoPublicKey().(type) {
	case *ecdsa.PublicKey:
		out["crv"] = curveID(pk.Curve)
		out["x"] = hx(pk.X.Bytes())
		out["y"] = hx(pk.Y.Bytes())
	case ed25519.PublicKey:
		out["x"] = hx(pk)
	case rsa.PublicKey:
		out["n"] = hx(pk.N.Bytes())
		out["e"] = hx(big.NewInt(int64(pk.E)).Bytes())
	case *rsa.PublicKey:
		out["n"] = hx(pk.N.Bytes())
		out["e"] = hx(big.NewInt(int64(pk.E)).Bytes())
	}
	return out
}

func init() {
	executors["cose.unmarshal"] = func(c *Ctx, stream string, op M) {
		raw := unhx(op["data"].(string))
		parser, _ := op["parser"].(string)
		model := c.Call(op)
		if um, _ := model["unmodelled"].(bool); um {
			c.Unmodelled(stream)
			return
		}
		delete(model, "id")
		impl := guard(func() M {
			var k cose.PublicKey
			var rest []byte
			var err error
			switch parser {
			case "ec2":
				var kk *cose.ECDSAPublicKey
				kk, rest, err = cose.UnmarshalECDSAPublicKey(raw)
				if err == nil {
					k = kk
				}
			case "okp":
				var kk *cose.EdDSAPublicKey
				kk, rest, err = cose.UnmarshalEdDSAPublicKey(raw)
				if err == nil {
					k = kk
				}
			case "rsa":
				var kk *cose.RSAPublicKey
				kk, rest, err = cose.UnmarshalRSAPublicKey(raw)
				if err == nil {
					k = kk
				}
			default:
				k, rest, err = cose.UnmarshalPublicKey(raw)
			}
			if err != nil {
				return M{"ok": false, "class": coseErrClass(err)}
			}
			return M{"ok": true, "key": coseKeyObs(k), "rest": hx(rest)}
		})
		class := "accept"
		if ok, _ := model["ok"].(bool); !ok {
			class = fmt.Sprint(model["class"])
		}
		c.Compare(stream, op, impl, model, class, true)
		// marshal ∘ parse round trip on the implementation: equal key again
		if ok, _ := impl["ok"].(bool); ok && parser == "" {
			k, _, _ := cose.UnmarshalPublicKey(raw)
			back, err := k.Marshal()
			mm := c.Call(M{"op": "cose.marshal", "data": op["data"]})
			delete(mm, "id")
			c.Compare(stream+".marshal", M{"op": "cose.marshal", "data": op["data"]}, M{"ok": err == nil, "data": hx(back)}, mm, "marshal", true)
			if err == nil {
				k2, rest2, err2 := cose.UnmarshalPublicKey(back)
				o2 := M{"ok": false}
				if err2 == nil {
					o2 = M{"ok": true, "key": coseKeyObs(k2), "rest": hx(rest2)}
				}
				c.Compare(stream+".roundtrip", M{"op": "cose.roundtrip", "data": op["data"]}, o2, M{"ok": true, "key": impl["key"], "rest": ""}, "roundtrip", true)
			}
		}
	}
}

// coseMapFrom builds a COSE_Key map from explicit members (nil value = member omitted).
type member struct {
	k int64
	v []byte // encoded value
}

func encodeMembers(ms []member) []byte {
	out := cborHead(5, uint64(len(ms)), true, nil)
	for _, m := range ms {
		out = append(out, cborInt(m.k)...)
		out = append(out, m.v...)
	}
	return out
}

func keyMembers(k *KeyPair, fixedWidth bool) []member {
	raw := k.COSE(fixedWidth)
	// re-derive members (harness-local knowledge of its own encoding)
	switch k.Kind {
	case "ec":
		size := (k.EC.Curve.Params().BitSize + 7) / 8
		x, y := k.EC.X.Bytes(), k.EC.Y.Bytes()
		if fixedWidth {
			x, y = fixed(k.EC.X, size), fixed(k.EC.Y, size)
		}
		return []member{{1, cborInt(2)}, {3, cborInt(int64(k.Alg))}, {-1, cborInt(int64(k.Crv))}, {-2, cborBytes(x)}, {-3, cborBytes(y)}}
	case "ed":
		return []member{{1, cborInt(1)}, {3, cborInt(int64(k.Alg))}, {-1, cborInt(6)}, {-2, cborBytes(k.Ed.Public().(ed25519.PublicKey))}}
	default:
		_ = raw
		return []member{{1, cborInt(3)}, {3, cborInt(int64(k.Alg))}, {-1, cborBytes(k.RSA.N.Bytes())}, {-2, cborBytes(big.NewInt(int64(k.RSA.E)).Bytes())}}
	}
}

func permute[T any](r *RNG, xs []T) []T {
	out := append([]T{}, xs...)
	for i := len(out) - 1; i > 0; i-- {
		j := r.Intn(i + 1)
		out[i], out[j] = out[j], out[i]
	}
	return out
}

func init() {
	run := func(c *Ctx, stream string, raw []byte, parser string) {
		op := M{"op": "cose.unmarshal", "data": hx(raw)}
		if parser != "" {
			op["parser"] = parser
		}
		executors["cose.unmarshal"](c, stream, op)
	}
	register("C11",
		Stream{"cose.triples", func(c *Ctx) {
			// (kty, alg, crv) box around the registered values; key material of the right shape
			r := c.R
			ktys := []int64{-2, -1, 0, 1, 2, 3, 4, 5, 6, 7, 8, 255, 256}
			algs := []int64{0, -7, -8, -35, -36, -37, -38, -39, -257, -258, -259, -65535, -65536, -65534, -6, -9, -34, -40, -256, -260, 7, 8, 1, -1,
				-47, -46, -45, -44, -43, -42, -41, -1 << 31, 1 << 31, -1 << 62}
			crvs := []int64{-1, 0, 1, 2, 3, 4, 5, 6, 7, 8, 9, 10}
			if !c.Thorough() {
				// quick: every pair (kty, alg) with 3 sampled curves, plus every (kty, crv) with 3 sampled algs
				for _, kty := range ktys {
					for _, alg := range algs {
						for i := 0; i < 3; i++ {
							run(c, "cose.triples", tripleKey(r, kty, alg, pick(r, crvs)), "")
						}
					}
					for _, crv := range crvs {
						for i := 0; i < 3; i++ {
							run(c, "cose.triples", tripleKey(r, kty, pick(r, algs), crv), "")
						}
					}
				}
				return
			}
			for _, kty := range ktys {
				for _, alg := range algs {
					for _, crv := range crvs {
						run(c, "cose.triples", tripleKey(r, kty, alg, crv), "")
					}
				}
			}
			c.Res.mu.Lock()
			c.Res.Exhaustive = append(c.Res.Exhaustive, "(kty, alg, crv) box 13 x 34 x 12")
			c.Res.mu.Unlock()
		}},
		Stream{"cose.keys", func(c *Ctx) {
			r := c.R
			n := c.N(40, 1500)
			for i := 0; i < n; i++ {
				for _, alg := range allAlgs {
					k := genKeyPair(r, alg)
					ms := keyMembers(k, r.Bool())
					// leading zero bytes added to magnitudes
					if r.P(1, 3) {
						for j := range ms {
							if ms[j].k == -2 || ms[j].k == -3 || (ms[j].k == -1 && k.Kind == "rsa") {
								if k.Kind != "ed" {
									_, body := splitBytes(ms[j].v)
									ms[j].v = cborBytes(append(make([]byte, 1+r.Intn(2)), body...))
								}
							}
						}
					}
					raw := encodeMembers(ms)
					run(c, "cose.keys", raw, "")
					run(c, "cose.keys.trailing", append(append([]byte{}, raw...), r.Bytes(1+r.Intn(3))...), "")
					run(c, "cose.keys.typed", append(append([]byte{}, raw...), r.Bytes(r.Intn(3))...), map[string]string{"ec": "ec2", "ed": "okp", "rsa": "rsa"}[k.Kind])
					// wrong type-specific parser
					run(c, "cose.keys.typed", raw, pick(r, []string{"ec2", "okp", "rsa"}))
					// permutations
					run(c, "cose.members.permuted", encodeMembers(permute(r, ms)), "")
					// single omission
					j := r.Intn(len(ms))
					run(c, "cose.members.omitted", encodeMembers(append(append([]member{}, ms[:j]...), ms[j+1:]...)), "")
					// duplicated member (first wins), possibly with another value
					d := ms[r.Intn(len(ms))]
					d2 := member{d.k, pick(r, [][]byte{d.v, cborInt(int64(r.Intn(10)) - 5), cborBytes(r.Bytes(3))})}
					run(c, "cose.members.duplicated", encodeMembers(append(append([]member{}, ms...), d2)), "")
					run(c, "cose.members.duplicated", encodeMembers(append([]member{d2}, ms...)), "")
					// alternative encodings: indefinite map, non-minimal heads, text keys "1", array-for-bytes, unknown members
					run(c, "cose.alt", altEncode(r, ms), "")
					// retyped member
					k2 := r.Intn(len(ms))
					ms2 := append([]member{}, ms...)
					ms2[k2].v = pick(r, [][]byte{cborText("x"), {0xf6}, {0xf7}, {0xf5}, {0xf9, 0x3c, 0x00}, cborArray(cborInt(1)), cborMap(), cborInt(-1), cborInt(300), cborBytes(nil), {0x1b, 0xff, 0xff, 0xff, 0xff, 0xff, 0xff, 0xff, 0xff}, {0x3b, 0xff, 0xff, 0xff, 0xff, 0xff, 0xff, 0xff, 0xff}, {0xc2, 0x41, 0x01}, {0xe5}})
					run(c, "cose.members.retyped", encodeMembers(ms2), "")
				}
			}
		}},
		Stream{"cose.okpLengths", func(c *Ctx) {
			for _, l := range []int{0, 1, 31, 32, 33, 64} {
				for _, alg := range [][]byte{cborInt(-8), nil, cborInt(0), cborInt(-7)} {
					ms := []member{{1, cborInt(1)}, {-1, cborInt(6)}, {-2, cborBytes(c.R.Bytes(l))}}
					if alg != nil {
						ms = append(ms, member{3, alg})
					}
					run(c, "cose.okpLengths", encodeMembers(ms), "")
				}
			}
		}},
		Stream{"cose.rsaExponent", func(c *Ctx) {
			k := rsaPool[0]
			for _, e := range [][]byte{{1, 0, 1}, {0, 0, 1, 0, 1}, {3}, {}, {0}, {0x7f, 0xff, 0xff, 0xff, 0xff, 0xff, 0xff, 0xff}, {0x80, 0, 0, 0, 0, 0, 0, 0},
				{1, 0, 0, 0, 0, 0, 0, 1, 0, 1}, {0, 0x80, 0, 0, 0, 0, 0, 0, 0}, {0xff, 0xff, 0xff, 0xff, 0xff, 0xff, 0xff, 0xff, 0xff, 0xff, 0xff, 0xff, 0xff, 0xff, 0xff, 0xff, 0xff}} {
				ms := []member{{1, cborInt(3)}, {3, cborInt(-257)}, {-1, cborBytes(k.N.Bytes())}, {-2, cborBytes(e)}}
				run(c, "cose.rsaExponent", encodeMembers(ms), "")
			}
		}},
		Stream{"cose.rsaModulus", func(c *Ctx) {
			// moduli at and around the sizes in use (and beyond), minimal and with leading zero octets (as a big-integer library that writes
			// a sign octet does): the parser looks at nothing but the number
			r := c.R
			for _, bits := range []int{512, 1024, 2040, 2048, 2056, 3072, 4088, 4096, 4104, 8192, 16384} {
				for rep := 0; rep < 2; rep++ {
					n := r.Bytes(bits / 8)
					n[0] |= 0x80
					n[len(n)-1] |= 1
					for _, zeros := range []int{0, 1, 2, 8} {
						for _, alg := range []int64{-257, -37, -65535, -259} {
							ms := []member{{1, cborInt(3)}, {3, cborInt(alg)}, {-1, cborBytes(append(make([]byte, zeros), n...))}, {-2, cborBytes([]byte{1, 0, 1})}}
							run(c, "cose.rsaModulus", encodeMembers(ms), pick(r, []string{"", "", "rsa"}))
						}
					}
				}
			}
		}},
		Stream{"cose.random", func(c *Ctx) {
			n := c.N(4000, 300000)
			for i := 0; i < n; i++ {
				var raw []byte
				switch c.R.Intn(3) {
				case 0:
					raw = c.R.Bytes(c.R.Intn(40))
				case 1:
					raw = genCBOR(c.R, 3, true)
				default:
					k := genKeyPair(c.R, pick(c.R, []int{algES256, algEdDSA, algES384}))
					raw = mutate(c.R, k.COSE(true))
				}
				run(c, "cose.random", raw, pick(c.R, []string{"", "", "ec2", "okp", "rsa"}))
			}
		}},
	)
}

func splitBytes(enc []byte) (head []byte, body []byte) {
	// enc is a definite byte string produced by cborBytes
	switch {
	case enc[0]&0x1f < 24:
		return enc[:1], enc[1:]
	case enc[0]&0x1f == 24:
		return enc[:2], enc[2:]
	case enc[0]&0x1f == 25:
		return enc[:3], enc[3:]
	default:
		return enc[:5], enc[5:]
	}
}

func tripleKey(r *RNG, kty, alg, crv int64) []byte {
	ms := []member{{1, cborInt(kty)}}
	if !(alg == 0 && r.Bool()) {
		ms = append(ms, member{3, cborInt(alg)})
	}
	switch {
	case kty == 3 || (kty != 1 && kty != 2 && r.P(1, 3)):
		k := rsaPool[0]
		ms = append(ms, member{-1, cborBytes(k.N.Bytes())}, member{-2, cborBytes([]byte{1, 0, 1})})
	case kty == 1:
		ms = append(ms, member{-1, cborInt(crv)}, member{-2, cborBytes(r.Bytes(32))})
	default:
		ms = append(ms, member{-1, cborInt(crv)}, member{-2, cborBytes(r.Bytes(32))}, member{-3, cborBytes(r.Bytes(32))})
	}
	return encodeMembers(ms)
}

func altEncode(r *RNG, ms []member) []byte {
	indef := r.Bool()
	var out []byte
	n := len(ms)
	extra := r.Intn(3)
	if indef {
		out = []byte{0xbf}
	} else {
		out = cborHead(5, uint64(n+extra), false, r)
	}
	for i := 0; i < extra; i++ {
		out = append(out, pick(r, [][]byte{cborInt(int64(10 + r.Intn(5))), cborText("x"), cborText("kty"), cborInt(-10)})...)
		out = append(out, genCBOR(r, 1, true)...)
	}
	for _, m := range ms {
		switch r.Intn(4) {
		case 0: // text key = decimal name
			out = append(out, cborText(fmt.Sprint(m.k))...)
		case 1: // non-minimal integer head
			if m.k >= 0 {
				out = append(out, cborHead(0, uint64(m.k), false, r)...)
			} else {
				out = append(out, cborHead(1, uint64(-1-m.k), false, r)...)
			}
		default:
			out = append(out, cborInt(m.k)...)
		}
		v := m.v
		if v[0]>>5 == 2 && r.P(1, 3) {
			_, body := splitBytes(v)
			if r.Bool() {
				v = indefString(NewRNG(r.U64()|1<<63), 2, body)
				if v[len(v)-2] == 'x' { // wrong-chunk variant produced by indefString: keep as is (invalid)
				}
			} else if len(body) < 70 {
				var items [][]byte
				for _, b := range body {
					items = append(items, cborUint(uint64(b)))
				}
				v = cborArray(items...)
			}
		}
		out = append(out, v...)
	}
	if indef {
		out = append(out, 0xff)
	}
	return out
}
