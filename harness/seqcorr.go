package main

import (
	"fmt"

	"github.com/pomerium/webauthn"
	"github.com/pomerium/webauthn/cose"
)

// Sequences of authentication ceremonies on ONE RelyingParty whose storage is changed from outside between the steps (the storage is the
// integrator's: records can be replaced without the relying party seeing it).  Each step must come out as the same ceremony does on a
// fresh RelyingParty over the storage contents of that moment — which is what the (stateless) model computes step by step.  Anything the
// relying party keeps beside the storage (a cache of decoded keys, a memo of outcomes) shows here.

func init() {
	executors["auth.sequence"] = func(c *Ctx, stream string, op M) {
		var steps []M
		switch l := op["steps"].(type) {
		case []M:
			steps = l
		case []any:
			for _, e := range l {
				steps = append(steps, e.(M))
			}
		}
		if len(steps) == 0 {
			return
		}
		st := storeFromOp(steps[0])
		var rp *webauthn.RelyingParty
		var implObs, modelObs []M
		accepts := 0
		for _, step := range steps {
			// the storage as the integrator left it before this step
			fresh := storeFromOp(step)
			st.m, st.calls, st.getMode, st.setMode = fresh.m, []M{}, fresh.getMode, fresh.setMode
			if rp == nil {
				rp = webauthn.NewRelyingParty(string(unhx(step["origin"].(string))), st)
			}
			impl := runAuthImplOn(rp, st, step)
			model := c.Call(step)
			if um, _ := model["unmodelled"].(bool); um {
				c.Unmodelled(stream)
				return
			}
			mo := M{"ok": model["ok"]}
			if ok, _ := model["ok"].(bool); ok {
				mo["cred"] = model["cred"]
				accepts++
			} else {
				mo["class"] = modelAuthClass(fmt.Sprint(model["class"]))
			}
			io := M{"ok": impl["ok"]}
			if ok, _ := impl["ok"].(bool); ok {
				io["cred"] = impl["cred"]
			} else {
				io["class"] = impl["class"]
			}
			for _, k := range []string{"panic", "timeout", "nonNilCredentialWithError"} {
				if v, has := impl[k]; has {
					io[k] = v
				}
			}
			implObs, modelObs = append(implObs, io), append(modelObs, mo)
		}
		class := fmt.Sprintf("len%d-accepts%d", len(steps), accepts)
		if dv, ok := op["_dev"].(string); ok {
			class += "/" + dv
		}
		c.Compare(stream, op, M{"steps": implObs}, M{"steps": modelObs}, class, accepts > 0)
	}

	// one credential id whose stored key is replaced behind the relying party's back
	seqStream := func(name string) Stream {
		return Stream{name, func(c *Ctx) {
			r := c.R
			n := c.N(40, 2000)
			for i := 0; i < n; i++ {
				origin := pick(r, honestOrigins)
				credID, owner := r.Bytes(16), r.Bytes(8)
				alg := pick(r, []int{algES256, algES256, algRS256, algEdDSA, algES384, algPS256})
				keys := []*KeyPair{genKeyPair(r, alg), genKeyPair(r, alg), genKeyPair(r, pick(r, []int{algES256, algRS256, algEdDSA}))}
				for sameKey(keys[1], keys[0]) {
					keys[1] = genKeyPair(r, alg)
				}
				for sameKey(keys[2], keys[0]) || sameKey(keys[2], keys[1]) {
					keys[2] = genKeyPair(r, pick(r, []int{algES256, algRS256, algEdDSA}))
				}
				var steps []M
				length := 3 + r.Intn(5)
				stored := 0
				for j := 0; j < length; j++ {
					if j > 0 && r.P(1, 2) {
						stored = r.Intn(len(keys)) // the integrator replaces the record
					}
					signer := keys[r.Intn(len(keys))]
					if r.P(1, 2) {
						signer = keys[stored]
					}
					s := newAuthSpec(r, origin, signer, credID, owner, keys[stored].COSE(true))
					s.Inert = nil
					step := buildAssertion(r, s)
					steps = append(steps, step)
				}
				executors["auth.sequence"](c, name, M{"op": "auth.sequence", "steps": steps, "_dev": "storedKeyReplaced"})
			}
		}}
	}
	register("C01", seqStream("auth.sequence"))
	register("C16", seqStream("auth.sequence"))
	register("C07", seqStream("auth.sequence"))
}

// One PARSED key object used for several verifications in a row (a relying party may keep decoded keys): every call must come out as it
// does on a freshly parsed key — a rejected signature, an empty or a long message before it must leave nothing behind in the key object.
func init() {
	executors["cose.verifySequence"] = func(c *Ctx, stream string, op M) {
		key := unhx(op["key"].(string))
		var steps []M
		switch l := op["steps"].(type) {
		case []M:
			steps = l
		case []any:
			for _, e := range l {
				steps = append(steps, e.(M))
			}
		}
		var modelObs []M
		for _, st := range steps {
			m := c.Call(M{"op": "cose.verify", "key": op["key"], "data": st["data"], "sig": st["sig"]})
			if um, _ := m["unmodelled"].(bool); um {
				c.Unmodelled(stream)
				return
			}
			modelObs = append(modelObs, M{"verified": m["verified"]})
		}
		impl := guard(func() M {
			k, _, err := cose.UnmarshalPublicKey(key)
			if err != nil {
				return M{"parsed": false}
			}
			var obs []M
			for _, st := range steps {
				obs = append(obs, M{"verified": k.Verify(unhx(st["data"].(string)), unhx(st["sig"].(string))) == nil})
			}
			return M{"steps": obs}
		})
		c.Compare(stream, op, impl, M{"steps": modelObs}, fmt.Sprint(op["_dev"]), true)
	}
	register("C12", Stream{"verify.sameKeyObject", func(c *Ctx) {
		r := c.R
		n := c.N(6, 200)
		for i := 0; i < n; i++ {
			for _, alg := range allAlgs {
				kp := genKeyPair(r, alg)
				other := genKeyPair(r, alg)
				var steps []M
				for j := 0; j < 3+r.Intn(4); j++ {
					msg := r.Bytes(pick(r, []int{0, 1, 32, 100, 1000}))
					sig := kp.Sign(msg)
					switch r.Intn(4) {
					case 0:
						sig = other.Sign(msg) // another key's signature
					case 1:
						msg = append([]byte{1}, msg...) // another message
					}
					steps = append(steps, M{"data": hx(msg), "sig": hx(sig)})
				}
				executors["cose.verifySequence"](c, "verify.sameKeyObject", M{"op": "cose.verifySequence", "key": hx(kp.COSE(true)), "steps": steps, "_dev": fmt.Sprintf("alg%d", alg)})
			}
		}
	}})
}
