package main

import (
	"crypto/x509"

	"github.com/pomerium/webauthn/tpm"
)

// hardwareDetailsOracle: in phase 1 the TPM hardware-detail extraction is treated as a unit that the
// TPM attestation model consults (its own model and theorems are property C17's); the answer comes from
// the implementation's exported function.  This is the one ask that is answered by /repo code, and only
// for the TPM certificate-requirement clause T8–T10; C17 validates that function against its own model.
func hardwareDetailsOracle(der []byte) (ok bool) {
	defer func() {
		if p := recover(); p != nil {
			ok = false
		}
	}()
	c, err := x509.ParseCertificate(der)
	if err != nil {
		return false
	}
	_, err = tpm.GetHardwareDetailsFromCertificate(c)
	return err == nil
}

func tpmVendors() map[tpm.VendorID]tpm.Vendor { return tpm.RegisteredVendors }

func tpmVendorSnapshot() map[tpm.VendorID]tpm.Vendor {
	out := map[tpm.VendorID]tpm.Vendor{}
	for k, v := range tpm.RegisteredVendors {
		out[k] = v
	}
	return out
}
