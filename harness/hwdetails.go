package main

import (
	"github.com/pomerium/webauthn/tpm"
)

func tpmVendors() map[tpm.VendorID]tpm.Vendor { return tpm.RegisteredVendors }

func tpmVendorSnapshot() map[tpm.VendorID]tpm.Vendor {
	out := map[tpm.VendorID]tpm.Vendor{}
	for k, v := range tpm.RegisteredVendors {
		out[k] = v
	}
	return out
}
