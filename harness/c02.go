package main

// single deviations of the registration ceremony (Appendix B, clauses R1–R13, P1–P2)
var regDeviations = []string{"cd.type", "cd.challenge", "cd.origin", "cd.malformed", "cd.memberAbsent", "ad.rpIdHash", "ad.noUP", "ad.noUV", "ad.noACD",
	"key.unsupported", "key.noAlg", "key.algOfOtherType", "key.okpOversize", "alg.notAllowed", "sig.otherKey", "sig.otherMessage", "sig.bitflip", "fmt.notAllowed", "type.notAllowed",
	"rawId.other", "rawId.lengthVariant", "owner.other", "attObj.malformed"}

func regWithDeviation(c *Ctx, stream, format string, credAlg, attAlg int, devs ...string) {
	regWithDeviationVar(c, stream, format, credAlg, attAlg, -1, devs...)
}

func regWithDeviationVar(c *Ctx, stream, format string, credAlg, attAlg int, v int, devs ...string) {
	r := c.R
	s := newRegSpec(r, format, credAlg)
	s.AttAlg = attAlg
	s.Var = v
	name := ""
	for _, d := range devs {
		if name != "" {
			name += "+"
		}
		name += d
		s.Dev[d] = true
		switch d {
		case "ad.noUV":
			uv := "required"
			s.AuthSelUV = &uv
		case "alg.notAllowed":
			// pubKeyCredParams without the credential's algorithm: omitted, empty, a random subset of the others, all the others
			s.Algs = nil
			switch variant(r, v, []int{0, 1, 2, 2, 3}) {
			case 0:
				s.Algs = nil
			case 1:
				s.Algs = []int{}
			case 2:
				for _, a := range allAlgs {
					if a != credAlg && r.Bool() {
						s.Algs = append(s.Algs, a)
					}
				}
			case 3:
				for _, a := range allAlgs {
					if a != credAlg {
						s.Algs = append(s.Algs, a)
					}
				}
			}
		case "fmt.notAllowed":
			var fs []string
			for _, f := range []string{"android-key", "android-safetynet", "apple", "fido-u2f", "none", "packed", "tpm"} {
				if f != fmtID(format) && r.P(2, 3) {
					fs = append(fs, hx([]byte(f)))
				}
			}
			if fs == nil {
				fs = []string{}
			}
			s.VerifyOpt = append(s.VerifyOpt, M{"formats": fs})
		case "type.notAllowed":
			var ts []string
			for _, t := range []string{"Basic", "Self", "AttCA", "AnonCA", "None", "Unknown"} {
				if t != expectedType[format] && r.P(2, 3) {
					ts = append(ts, hx([]byte(t)))
				}
			}
			if ts == nil {
				ts = []string{}
			}
			s.VerifyOpt = append(s.VerifyOpt, M{"types": ts})
		case "owner.other":
			s.Store = []M{{"id": hx(s.CredID), "owner": hx(otherOwner(r, s.UserID)), "pk": hx(cborMap())}}
		}
	}
	b := buildRegistration(r, s)
	op := b.Op()
	if s.Dev["attObj.malformed"] {
		ao := b.AttObj()
		op["attObj"] = hx(pick(r, [][]byte{ao[:len(ao)/2], nil, {0xa0}, cborMap(cborText("fmt"), cborInt(1)), append([]byte{0x9f}, ao...), cborMap(cborText("fmt"), cborText(b.FmtText), cborText("attStmt"), b.Stmt)}))
	}
	op["_dev"] = name
	executors["register"](c, stream, op)
	// ground truth: a deviated ceremony must be rejected — except deviations a format does not bind
	expectReject := true
	for _, d := range devs {
		switch d {
		case "sig.otherKey", "sig.otherMessage", "sig.bitflip":
			if format == "none" || (format == "apple" && d != "sig.otherMessage") || (format == "android-safetynet" && d == "sig.otherMessage") {
				expectReject = false // no signature in that statement / deviation not applicable
			}
			if format == "apple" && d == "sig.otherMessage" {
				expectReject = false
			}
		}
	}
	if expectReject {
		truth(c, stream+".truth", op, false)
	}
}

func init() {
	register("C02",
		Stream{"reg.deviations", func(c *Ctx) {
			reps := c.N(1, 10)
			for rep := 0; rep < reps; rep++ {
				for _, f := range allFormats {
					for _, dv := range regDeviations {
						ca := pick(c.R, credAlgsFor(f))
						aa := pick(c.R, attAlgsFor(f))
						regWithDeviation(c, "reg.dev."+dv, f, ca, aa, dv)
					}
				}
			}
		}},
		Stream{"reg.formatRequirements", func(c *Ctx) {
			// "the statement verifies under the procedure of its declared format": every single requirement of every format (C04's list), through
			// the whole ceremony, with storage observed
			reps := c.N(1, 6)
			for rep := 0; rep < reps; rep++ {
				for f, devs := range formatRequirementDevs {
					for _, dv := range devs {
						regWithDeviation(c, "reg.fmtreq."+f+"."+dv, f, pick(c.R, credAlgsFor(f)), pick(c.R, attAlgsFor(f)), dv)
					}
				}
			}
		}},
		Stream{"reg.deviationVariants", func(c *Ctx) {
			// every variant of the deviations that have several (origins, challenges incl. non-canonical base64url spellings, types, RP ID hashes, raw ids)
			for _, dv := range []string{"cd.type", "cd.challenge", "cd.origin", "ad.rpIdHash", "rawId.other", "alg.notAllowed"} {
				for v := 0; v < maxVariants; v++ {
					for _, f := range []string{"none", "packed-self", pick(c.R, allFormats[2:])} {
						regWithDeviationVar(c, "reg.var."+dv, f, pick(c.R, credAlgsFor(f)), pick(c.R, attAlgsFor(f)), v, dv)
					}
				}
			}
			// challenge lengths 0..5 mod 3 so that every padding situation occurs
			for l := 1; l <= 6; l++ {
				for v := 0; v < maxVariants; v++ {
					s := newRegSpec(c.R, "none", algES256)
					s.Challenge = c.R.Bytes(l)
					s.Var = v
					s.Dev["cd.challenge"] = true
					op := buildRegistration(c.R, s).Op()
					op["_dev"] = "cd.challenge"
					executors["register"](c, "reg.var.cd.challenge.len", op)
					truth(c, "reg.var.cd.challenge.len.truth", op, false)
				}
			}
		}},
		Stream{"reg.combinations", func(c *Ctx) {
			n := c.N(150, 6000)
			for i := 0; i < n; i++ {
				f := pick(c.R, allFormats)
				d1, d2 := pick(c.R, regDeviations), pick(c.R, regDeviations)
				regWithDeviation(c, "reg.combinations", f, pick(c.R, credAlgsFor(f)), pick(c.R, attAlgsFor(f)), d1, d2)
			}
		}},
		Stream{"reg.honest", func(c *Ctx) {
			n := c.N(3, 40)
			for i := 0; i < n; i++ {
				for _, f := range allFormats {
					honestPair(c, "reg.honest."+f, f, pick(c.R, credAlgsFor(f)), pick(c.R, attAlgsFor(f)))
				}
			}
		}},
		Stream{"reg.authSelAbsent", func(c *Ctx) {
			// optional option members absent: authenticatorSelection nil, with and without UV flag
			n := c.N(20, 600)
			for i := 0; i < n; i++ {
				f := pick(c.R, allFormats)
				s := newRegSpec(c.R, f, pick(c.R, credAlgsFor(f)))
				s.AttAlg = pick(c.R, attAlgsFor(f))
				s.AuthSelUV = nil
				if c.R.Bool() {
					s.Flags &^= 0x04
				}
				b := buildRegistration(c.R, s)
				op := b.Op()
				executors["register"](c, "reg.authSelAbsent", op)
				truth(c, "reg.authSelAbsent.truth", op, true)
			}
		}},
		Stream{"reg.mutated", func(c *Ctx) {
			n := c.N(400, 30000)
			for i := 0; i < n; i++ {
				f := pick(c.R, allFormats)
				s := newRegSpec(c.R, f, pick(c.R, credAlgsFor(f)))
				s.AttAlg = pick(c.R, attAlgsFor(f))
				b := buildRegistration(c.R, s)
				op := b.Op()
				if c.R.Bool() {
					op["attObj"] = hx(mutate(c.R, b.AttObj()))
				} else {
					op["cdj"] = hx(mutate(c.R, b.CDJ))
				}
				op["_dev"] = "mutated"
				executors["register"](c, "reg.mutated", op)
			}
		}},
	)
}

// otherOwner: a user handle that is NOT userID but close to it in the ways a careless comparison forgives: one more byte, trailing zeros,
// 256 more bytes (a length difference folded into one byte), a shorter prefix, the last byte changed, and — for handles longer than 64 bytes —
// a difference only behind the 64th byte
func otherOwner(r *RNG, userID []byte) []byte {
	cp := func() []byte { return append([]byte{}, userID...) }
	alts := [][]byte{append(cp(), 'x'), append(cp(), 0), append(cp(), 0, 0, 0), append(cp(), r.Bytes(256)...), append(cp(), make([]byte, 256)...)}
	if len(userID) > 1 {
		alts = append(alts, userID[:len(userID)-1])
		fl := cp()
		fl[len(fl)-1] ^= 1
		alts = append(alts, fl)
	}
	if len(userID) > 64 {
		fl := cp()
		fl[64+r.Intn(len(fl)-64)] ^= 0x40
		alts = append(alts, fl, fl, fl)
	}
	return pick(r, alts)
}
