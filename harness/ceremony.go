package main

import (
	"context"
	"database/sql"
	"encoding/json"
	"errors"
	"fmt"
	"io"
	"os"
	"sort"
	"time"

	"github.com/pomerium/webauthn"
	"github.com/pomerium/webauthn/cose"
)

var errInjectedGet = errors.New("injected storage read failure")
var errInjectedSet = errors.New("injected storage write failure")

// timeoutError: what a database driver or a network client hands back when its own deadline passes
type timeoutError struct{ cause error }

func (e timeoutError) Error() string   { return "i/o timeout: " + e.cause.Error() }
func (e timeoutError) Unwrap() error   { return e.cause }
func (e timeoutError) Timeout() bool   { return true }
func (e timeoutError) Temporary() bool { return true }

// shapedStorageError: the failures a real storage produces, each of them wrapping the harness's marker so that the outcome can be
// classified — the bare error, the storage's own query deadline or cancellation (the ceremony's context is alive), an end of stream, a
// missing row / file in the backend's own vocabulary, a timeout in the net.Error style, a join
func shapedStorageError(marker error, k int) error {
	switch k % 8 {
	case 1:
		return fmt.Errorf("storage: query: %w: %w", marker, context.DeadlineExceeded)
	case 2:
		return fmt.Errorf("storage: %w", fmt.Errorf("query: %w (%w)", context.Canceled, marker))
	case 3:
		return errors.Join(marker, io.ErrUnexpectedEOF)
	case 4:
		return fmt.Errorf("storage: %w: %w", marker, sql.ErrNoRows)
	case 5:
		return timeoutError{marker}
	case 6:
		return fmt.Errorf("storage: %w: %w", marker, os.ErrNotExist)
	case 7:
		return errors.Join(context.DeadlineExceeded, os.ErrDeadlineExceeded, marker)
	}
	return marker
}

// faultStore is the harness's CredentialStorage: a real map plus injected outcomes, recording every call.
type faultStore struct {
	real    *webauthn.InMemoryCredentialStorage // when set: the library's own storage, filled by the op's "storeHistory" in order
	m       map[string]*webauthn.Credential
	getMode string
	setMode string
	calls   []M
}

func credObs(c *webauthn.Credential) M {
	return M{"id": hx(c.ID), "owner": hx(c.OwnerID), "pk": hx(c.PublicKey)}
}

func (s *faultStore) GetCredential(_ context.Context, id []byte) (*webauthn.Credential, error) {
	s.calls = append(s.calls, M{"get": hx(id)})
	switch s.getMode {
	case "notFound":
		return nil, webauthn.ErrCredentialNotFound
	case "wrapped":
		// every shape in which errors.Is(err, ErrCredentialNotFound) holds: a chain, a longer chain, a join with the backend's own error,
		// two %w in one message, a wrapper around a join
		backend := errors.New("backend: no rows")
		switch (len(id) + len(s.calls)) % 5 {
		case 0:
			return nil, fmt.Errorf("storage layer: %w", webauthn.ErrCredentialNotFound)
		case 1:
			return nil, fmt.Errorf("repository: %w", fmt.Errorf("storage layer: %w", webauthn.ErrCredentialNotFound))
		case 2:
			return nil, errors.Join(backend, webauthn.ErrCredentialNotFound)
		case 3:
			return nil, fmt.Errorf("get %x: %w (%w)", id, webauthn.ErrCredentialNotFound, backend)
		default:
			return nil, fmt.Errorf("repository: %w", errors.Join(webauthn.ErrCredentialNotFound, backend))
		}
	case "err":
		return nil, shapedStorageError(errInjectedGet, len(id)+len(s.calls))
	}
	c, ok := s.m[string(id)]
	if !ok {
		return nil, webauthn.ErrCredentialNotFound
	}
	return c, nil
}

func (s *faultStore) SetCredential(_ context.Context, c *webauthn.Credential) error {
	s.calls = append(s.calls, M{"set": credObs(c)})
	if s.setMode == "err" {
		return shapedStorageError(errInjectedSet, len(c.ID)+len(s.calls))
	}
	cp := &webauthn.Credential{ID: append([]byte{}, c.ID...), OwnerID: append([]byte{}, c.OwnerID...), PublicKey: append([]byte{}, c.PublicKey...)}
	s.m[string(c.ID)] = cp
	return nil
}

func (s *faultStore) dump() []M {
	keys := make([]string, 0, len(s.m))
	for k := range s.m {
		keys = append(keys, k)
	}
	sort.Strings(keys)
	out := []M{}
	for _, k := range keys {
		out = append(out, credObs(s.m[k]))
	}
	return out
}

func storeFromOp(op M) *faultStore {
	s := &faultStore{m: map[string]*webauthn.Credential{}, getMode: "real", setMode: "real", calls: []M{}}
	if g, ok := op["get"].(string); ok {
		s.getMode = g
	}
	if hist, ok := op["storeHistory"].([]M); ok {
		// every record that was ever saved, in order, through the library's own SetCredential (later ones replace earlier ones)
		s.real = webauthn.NewInMemoryCredentialStorage()
		for _, m := range hist {
			_ = s.real.SetCredential(context.Background(), &webauthn.Credential{ID: unhx(m["id"].(string)), OwnerID: unhx(m["owner"].(string)), PublicKey: unhx(m["pk"].(string))})
		}
	}
	if g, ok := op["set"].(string); ok {
		s.setMode = g
	}
	if st, ok := op["store"].([]any); ok {
		for _, e := range st {
			m := e.(M)
			id := unhx(m["id"].(string))
			s.m[string(id)] = &webauthn.Credential{ID: id, OwnerID: unhx(m["owner"].(string)), PublicKey: unhx(m["pk"].(string))}
		}
	}
	if st, ok := op["store"].([]M); ok {
		for _, m := range st {
			id := unhx(m["id"].(string))
			s.m[string(id)] = &webauthn.Credential{ID: id, OwnerID: unhx(m["owner"].(string)), PublicKey: unhx(m["pk"].(string))}
		}
	}
	return s
}

func sortStore(v any) []M {
	var out []M
	switch st := v.(type) {
	case []any:
		for _, e := range st {
			out = append(out, e.(M))
		}
	case []M:
		out = append(out, st...)
	}
	sort.Slice(out, func(i, j int) bool { return out[i]["id"].(string) < out[j]["id"].(string) })
	if out == nil {
		out = []M{}
	}
	return out
}

func hexList(v any) [][]byte {
	var out [][]byte
	switch l := v.(type) {
	case []any:
		for _, e := range l {
			out = append(out, unhx(e.(string)))
		}
	case []string:
		for _, e := range l {
			out = append(out, unhx(e))
		}
	}
	return out
}

func intList(v any) []int64 {
	var out []int64
	switch l := v.(type) {
	case []any:
		for _, e := range l {
			out = append(out, num(e))
		}
	case []int:
		for _, e := range l {
			out = append(out, int64(e))
		}
	case []int64:
		out = l
	}
	return out
}

func verifyOptsFromOp(op M) []webauthn.VerifyOption {
	var out []webauthn.VerifyOption
	add := func(m M) {
		if f, ok := m["formats"]; ok {
			var fs []webauthn.AttestationFormat
			for _, b := range hexList(f) {
				fs = append(fs, webauthn.AttestationFormat(b))
			}
			out = append(out, webauthn.WithVerifyAllowedFormats(fs...))
		} else {
			var ts []webauthn.AttestationType
			for _, b := range hexList(m["types"]) {
				ts = append(ts, webauthn.AttestationType(b))
			}
			out = append(out, webauthn.WithVerifyAllowedTypes(ts...))
		}
	}
	switch l := op["verifyOpts"].(type) {
	case []any:
		for _, e := range l {
			add(e.(M))
		}
	case []M:
		for _, e := range l {
			add(e)
		}
	}
	return out
}

// reg/auth error classes the properties name; everything else is just "reject"
func regClass(err error) string {
	switch {
	case errors.Is(err, webauthn.ErrCredentialRegisteredToDifferentUser):
		return "differentUser"
	case errors.Is(err, errInjectedGet):
		return "storageErr"
	case errors.Is(err, errInjectedSet):
		return "saveErr"
	}
	return "reject"
}

func modelRegClass(c string) string {
	switch c {
	case "differentUser", "storageErr", "saveErr":
		return c
	}
	return "reject"
}

func authClass(err error) string {
	switch {
	case errors.Is(err, webauthn.ErrCredentialNotFound):
		return "notFound"
	case errors.Is(err, errInjectedGet):
		return "storageErr"
	}
	return "reject"
}

func modelAuthClass(c string) string {
	switch c {
	case "storageNotFound", "storageWrappedNotFound":
		return "notFound"
	case "storageErr":
		return c
	}
	return "reject"
}

func runRegisterImpl(op M) M {
	return runRegisterImplOn(nil, storeFromOp(op), op)
}

// clientExtOf: the client extension outputs that travel with a credential (nothing the ceremonies consult): chosen by the inert options
func clientExtOf(op M) map[string]interface{} {
	in, ok := op["inert"].(M)
	if !ok {
		return nil
	}
	switch int(num(in["clientExt"])) {
	case 1:
		return map[string]interface{}{}
	case 2:
		return map[string]interface{}{"appid": true}
	case 3:
		return map[string]interface{}{"credProps": map[string]interface{}{"rk": true}}
	case 4:
		return map[string]interface{}{"appid": false, "uvm": []interface{}{[]interface{}{1, 2, 3}}}
	case 5:
		return map[string]interface{}{"largeBlob": map[string]interface{}{"supported": true}, "appid": true, "unknownExtension": "x"}
	case 6:
		return map[string]interface{}{"appidExclude": true, "hmacCreateSecret": true}
	}
	return nil
}

// runRegisterImplOn: the registration ceremony of op on the given RelyingParty (a fresh one over st when rp is nil)
func runRegisterImplOn(rp *webauthn.RelyingParty, st *faultStore, op M) M {
	return guard(func() M {
		if rp == nil {
			rp = webauthn.NewRelyingParty(string(unhx(op["origin"].(string))), st)
		}
		opts := &webauthn.PublicKeyCredentialCreationOptions{Challenge: unhx(op["challenge"].(string)),
			User: webauthn.PublicKeyCredentialUserEntity{ID: unhx(op["userId"].(string))}}
		for _, a := range intList(op["algs"]) {
			opts.PubKeyCredParams = append(opts.PubKeyCredParams, webauthn.PublicKeyCredentialParameters{Type: "public-key", COSEAlgorithmIdentifier: cose.Algorithm(a)})
		}
		if uv, ok := op["authSelUV"].(string); ok {
			opts.AuthenticatorSelection = &webauthn.AuthenticatorSelectionCriteria{UserVerification: webauthn.UserVerificationRequirement(unhx(uv))}
		}
		if in, ok := op["inert"].(M); ok {
			opts.RP = webauthn.PublicKeyCredentialRPEntity{ID: string(unhx(in["rpId"].(string))), Name: "relying party"}
			opts.Timeout = time.Duration(num(in["timeoutMs"])) * time.Millisecond
			opts.User.Name, opts.User.DisplayName = "user", "User"
			if e, _ := in["ext"].(bool); e {
				opts.Extensions = map[string]interface{}{"credProps": true}
				opts.Attestation = webauthn.AttestationConveyancePreference(pick(NewRNG(uint64(num(in["timeoutMs"]))), []string{"none", "direct", "indirect", "enterprise"}))
			}
			if a, ok := in["attestation"].(string); ok {
				// the conveyance preference the relying party asked the client for: verification does not consult it
				opts.Attestation = webauthn.AttestationConveyancePreference(unhx(a))
			}
			if sel, ok := in["selection"].(M); ok && opts.AuthenticatorSelection != nil {
				// the other members of the selection criteria (attachment, resident key): not consulted either
				opts.AuthenticatorSelection.AuthenticatorAttachment = webauthn.AuthenticatorAttachment(unhx(sel["attachment"].(string)))
				opts.AuthenticatorSelection.ResidentKey = webauthn.ResidentKeyType(unhx(sel["residentKey"].(string)))
				opts.AuthenticatorSelection.RequireResidentKey, _ = sel["requireResidentKey"].(bool)
			}
		}
		fields := oneBuffer(unhx(op["rawId"].(string)), unhx(op["attObj"].(string)), unhx(op["cdj"].(string)))
		cred := &webauthn.PublicKeyCreationCredential{RawID: fields[0], ClientExtensionResults: clientExtOf(op),
			Response: webauthn.AuthenticatorAttestationResponse{ClientDataJSON: fields[2], AttestationObject: fields[1]}}
		if j, ok := op["credJSON"].(string); ok {
			// the credential as it arrives from a browser: the JSON document, decoded by the package's own UnmarshalJSON
			var fromJSON webauthn.PublicKeyCreationCredential
			if err := json.Unmarshal(unhx(j), &fromJSON); err != nil {
				return M{"ok": false, "class": "credentialJSON", "calls": []M{}, "store": st.dump()}
			}
			cred = &fromJSON
		}
		res, err := rp.VerifyRegistrationCeremony(context.Background(), opts, cred, verifyOptsFromOp(op)...)
		out := M{"calls": st.calls, "store": st.dump()}
		if out["calls"] == nil {
			out["calls"] = []M{}
		}
		if err != nil {
			out["ok"] = false
			out["class"] = regClass(err)
			if res != nil {
				out["nonNilCredentialWithError"] = true
			}
			return out
		}
		if res == nil {
			out["ok"] = false
			out["class"] = "nil-nil"
			return out
		}
		out["ok"] = true
		out["cred"] = credObs(res)
		return out
	})
}

func runAuthImpl(op M) M {
	st := storeFromOp(op)
	return runAuthImplOn(nil, st, op)
}

// runAuthImplOn: the authentication ceremony of op on the given RelyingParty (a fresh one over st when rp is nil)
func runAuthImplOn(rp *webauthn.RelyingParty, st *faultStore, op M) M {
	return guard(func() M {
		if rp == nil {
			rp = webauthn.NewRelyingParty(string(unhx(op["origin"].(string))), st)
			if st.real != nil {
				rp = webauthn.NewRelyingParty(string(unhx(op["origin"].(string))), st.real)
			}
		}
		opts := &webauthn.PublicKeyCredentialRequestOptions{Challenge: unhx(op["challenge"].(string)),
			UserVerification: webauthn.UserVerificationRequirement(unhx(op["uv"].(string)))}
		for i, id := range hexList(op["allow"]) {
			opts.AllowCredentials = append(opts.AllowCredentials, webauthn.PublicKeyCredentialDescriptor{Type: descriptorType(op, i), ID: id})
		}
		if in, ok := op["inert"].(M); ok {
			opts.RPID = string(unhx(in["rpId"].(string)))
			opts.Timeout = time.Duration(num(in["timeoutMs"])) * time.Millisecond
			if e, _ := in["ext"].(bool); e {
				opts.Extensions = map[string]interface{}{"appid": "https://example.com/appid.json", "uvm": true}
			}
		}
		// the response fields as a zero-copy decoder of a binary framing hands them over: consecutive sub-slices of ONE receive buffer
		// (each field's capacity runs on into the fields behind it), so a callee that appends to a field writes into its neighbours
		userHandle := unhx(op["userHandle"].(string))
		if n, _ := op["userHandleNil"].(bool); n {
			userHandle = nil
		} else if userHandle == nil {
			userHandle = []byte{}
		}
		fields := oneBuffer(unhx(op["rawId"].(string)), unhx(op["authData"].(string)), unhx(op["sig"].(string)), unhx(op["cdj"].(string)), userHandle)
		cred := &webauthn.PublicKeyAssertionCredential{RawID: fields[0], ClientExtensionResults: clientExtOf(op),
			Response: webauthn.AuthenticatorAssertionResponse{ClientDataJSON: fields[3], AuthenticatorData: fields[1],
				Signature: fields[2], UserHandle: fields[4]}}
		if j, ok := op["credJSON"].(string); ok {
			var fromJSON webauthn.PublicKeyAssertionCredential
			if err := json.Unmarshal(unhx(j), &fromJSON); err != nil {
				return M{"ok": false, "class": "credentialJSON", "calls": []M{}, "store": st.dump()}
			}
			cred = &fromJSON
		}
		res, err := rp.VerifyAuthenticationCeremony(context.Background(), opts, cred)
		out := M{"calls": st.calls, "store": st.dump()}
		if out["calls"] == nil {
			out["calls"] = []M{}
		}
		if err != nil {
			out["ok"] = false
			out["class"] = authClass(err)
			if res != nil {
				out["nonNilCredentialWithError"] = true
			}
			return out
		}
		if res == nil {
			out["ok"] = false
			out["class"] = "nil-nil"
			return out
		}
		out["ok"] = true
		out["cred"] = credObs(res)
		return out
	})
}

func init() {
	executors["register"] = func(c *Ctx, stream string, op M) {
		model := c.Call(op)
		if um, _ := model["unmodelled"].(bool); um {
			c.Unmodelled(stream)
			return
		}
		impl := runRegisterImpl(op)
		mo := M{"ok": model["ok"], "calls": model["calls"], "store": sortStore(model["store"])}
		if mo["calls"] == nil {
			mo["calls"] = []M{}
		}
		class := "accept"
		if ok, _ := model["ok"].(bool); ok {
			mo["cred"] = model["cred"]
		} else {
			mo["class"] = modelRegClass(fmt.Sprint(model["class"]))
			class = fmt.Sprint(model["class"])
		}
		if f, ok := op["_fmt"].(string); ok {
			class = f + "/" + class
		}
		if dv, ok := op["_dev"].(string); ok {
			class = class + "/" + dv
		}
		nontrivial := true
		if mc, _ := model["class"].(string); mc == "clientData" || mc == "attObj" {
			nontrivial = false
		}
		c.Compare(stream, op, impl, mo, class, nontrivial)
	}
	executors["authenticate"] = func(c *Ctx, stream string, op M) {
		model := c.Call(op)
		if um, _ := model["unmodelled"].(bool); um {
			c.Unmodelled(stream)
			return
		}
		impl := runAuthImpl(op)
		mo := M{"ok": model["ok"], "calls": model["calls"], "store": sortStore(model["store"])}
		if mo["calls"] == nil {
			mo["calls"] = []M{}
		}
		class := "accept"
		if ok, _ := model["ok"].(bool); ok {
			mo["cred"] = model["cred"]
		} else {
			mo["class"] = modelAuthClass(fmt.Sprint(model["class"]))
			class = fmt.Sprint(model["class"])
		}
		if dv, ok := op["_dev"].(string); ok {
			class = class + "/" + dv
		}
		nontrivial := true
		if mc, _ := model["class"].(string); mc == "clientData" {
			nontrivial = false
		}
		c.Compare(stream, op, impl, mo, class, nontrivial)
	}
	executors["attest"] = func(c *Ctx, stream string, op M) {
		model := c.Call(op)
		if um, _ := model["unmodelled"].(bool); um {
			c.Unmodelled(stream)
			return
		}
		delete(model, "id")
		delete(model, "unmodelled")
		impl := guard(func() M {
			ao, _, err := webauthn.UnmarshalAttestationObject(unhx(op["attObj"].(string)))
			if err != nil {
				return M{"decoded": false}
			}
			var h webauthn.ClientDataJSONHash
			copy(h[:], unhx(op["cdHash"].(string)))
			var res *webauthn.VerifyAttestationStatementResult
			verifier, _ := op["verifier"].(string)
			switch verifier {
			case "none":
				res, err = webauthn.VerifyNoneAttestationStatement(ao, h)
			case "packed":
				res, err = webauthn.VerifyPackedAttestationStatement(ao, h)
			case "fido-u2f":
				res, err = webauthn.VerifyFIDOU2FAttestationStatement(ao, h)
			case "android-key":
				res, err = webauthn.VerifyAndroidKeyAttestationStatement(ao, h)
			case "android-safetynet":
				res, err = webauthn.VerifyAndroidSafetyNetAttestationStatement(ao, h)
			case "apple":
				res, err = webauthn.VerifyAppleAttestationStatement(ao, h)
			case "tpm":
				res, err = webauthn.VerifyTPMAttestationStatement(ao, h)
			default:
				res, err = webauthn.VerifyAttestationStatement(ao, h)
			}
			if err != nil || res == nil {
				return M{"decoded": true, "ok": false}
			}
			x5c := []string{}
			if ao.Format != webauthn.AttestationFormatAndroidSafetyNet {
				for _, path := range res.TrustPaths {
					for _, cert := range path {
						x5c = append(x5c, hx(cert.Raw))
					}
				}
			}
			return M{"decoded": true, "ok": true, "type": string(res.Type), "x5c": x5c}
		})
		class := "reject"
		if ok, _ := model["ok"].(bool); ok {
			class = "accept-" + fmt.Sprint(model["type"])
		} else if d, _ := model["decoded"].(bool); !d {
			class = "undecodable"
		}
		if f, ok := op["_fmt"].(string); ok {
			class = f + "/" + class
		}
		if dv, ok := op["_dev"].(string); ok {
			class = class + "/" + dv
		}
		c.Compare(stream, op, impl, model, class, class != "undecodable")
		if et, ok := op["_expectType"].(string); ok {
			// ground truth: an honest statement is accepted with the format's attestation type
			c.Compare(stream+".type", op, M{"ok": impl["ok"], "type": impl["type"]}, M{"ok": true, "type": et}, class, true)
		}
		if eo, ok := op["_expectOK"].(bool); ok {
			// an attestation object that does not even decode is "not accepted" (a panic or a timeout is neither)
			got := impl["ok"]
			if dec, isBool := impl["decoded"].(bool); isBool && !dec {
				got = false
			}
			c.Compare(stream+".truth", op, M{"ok": got}, M{"ok": eo}, class, true)
		}
	}
}

// descriptorType: the type member of the i-th allowCredentials descriptor ("public-key" unless the op says otherwise; the ceremony
// must neither depend on it nor rewrite the caller's list because of it)
func descriptorType(op M, i int) webauthn.PublicKeyCredentialType {
	if ts, ok := op["allowTypes"].([]any); ok && i < len(ts) {
		if s, ok := ts[i].(string); ok {
			return webauthn.PublicKeyCredentialType(s)
		}
	}
	if ts, ok := op["allowTypes"].([]string); ok && i < len(ts) {
		return webauthn.PublicKeyCredentialType(ts[i])
	}
	return "public-key"
}

// oneBuffer lays the given byte strings out one after the other in a single backing array and returns them as sub-slices of it
// (nil stays nil: "absent" and "empty" are different inputs); every returned slice has spare capacity reaching to the end of the array
func oneBuffer(parts ...[]byte) [][]byte {
	total := 0
	for _, p := range parts {
		total += len(p)
	}
	buf := make([]byte, 0, total+32)
	for _, p := range parts {
		buf = append(buf, p...)
	}
	buf = append(buf, make([]byte, 32)...)
	out := make([][]byte, len(parts))
	off := 0
	for i, p := range parts {
		if p != nil {
			out[i] = buf[off : off+len(p)]
		}
		off += len(p)
	}
	return out
}
