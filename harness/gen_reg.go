package main

import (
	"crypto"
	"crypto/ed25519"
	"crypto/rand"
	"crypto/x509"
	"crypto/x509/pkix"
	"encoding/asn1"
	"encoding/base64"
	"encoding/json"
	"encoding/pem"
	"fmt"
	"math/big"
	"os"
	"strings"
	"time"

	jose "github.com/go-jose/go-jose/v3"
	"github.com/google/go-tpm/legacy/tpm2"
)

func init() {
	// make the harness CA the only "system" root, so that SafetyNet chains can be honest (DESIGN §11)
	path := fmt.Sprintf("/verif/build/harness-roots-%d.pem", os.Getpid())
	os.MkdirAll("/verif/build", 0o755)
	os.WriteFile(path, pem.EncodeToMemory(&pem.Block{Type: "CERTIFICATE", Bytes: caCert.Raw}), 0o644)
	os.Setenv("SSL_CERT_FILE", path)
	os.Setenv("SSL_CERT_DIR", "/nonexistent-verif")
	rootsFile = path
}

var rootsFile string

var allFormats = []string{"none", "packed-self", "packed-x5c", "fido-u2f", "tpm", "android-key", "android-safetynet", "apple"}

func fmtID(format string) string {
	switch format {
	case "packed-self", "packed-x5c":
		return "packed"
	}
	return format
}

// RegSpec describes one registration; Dev holds named deviations from honesty.
type RegSpec struct {
	Inert     M // option members the verification must not depend on (rp.id, rp.name, user names, timeout, extensions, attestation preference)
	Format    string
	CredAlg   int
	AttAlg    int // attestation / AIK key algorithm where the format has one
	Origin    string
	Client    string // client-data origin
	Challenge []byte
	UserID    []byte
	CredID    []byte
	AAGUID    []byte
	Flags     byte
	Counter   uint32
	Ext       []byte
	Algs      []int
	AuthSelUV *string
	CDExtra   M
	Dev       map[string]bool
	Store     []M
	VerifyOpt []M
	Get, Set  string
	FixedKey  bool // fixed-width EC coordinates in the COSE key
	Cred      *KeyPair
	Var       int // variant of a deviation that has several (0-based; < 0 = PRNG choice)
}

func (s *RegSpec) d(name string) bool { return s.Dev[name] }

// maxVariants is an upper bound on the number of variants any single deviation has
const maxVariants = 18

func variant[T any](r *RNG, v int, xs []T) T {
	if v >= 0 {
		return xs[v%len(xs)]
	}
	return xs[r.Intn(len(xs))]
}

// nonCanonicalB64 returns spellings other than the canonical one that Go's lenient RawURLEncoding decoder maps to the same bytes
func nonCanonicalB64(canon string) []string {
	const alpha = "ABCDEFGHIJKLMNOPQRSTUVWXYZabcdefghijklmnopqrstuvwxyz0123456789-_"
	out := []string{canon + "\n", canon + "\r\n", "\n" + canon, canon + "\r"}
	if len(canon) > 2 {
		out = append(out, canon[:len(canon)/2]+"\r\n"+canon[len(canon)/2:])
	}
	if n := len(canon) % 4; (n == 2 || n == 3) && len(canon) > 0 {
		last := strings.IndexByte(alpha, canon[len(canon)-1])
		free := 4 // unused low bits: 4 when two characters remain, 2 when three
		if n == 3 {
			free = 2
		}
		for d := 1; d < 1<<uint(free); d += 3 {
			if alt := last | d; alt != last && alt < 64 && alt>>uint(free) == last>>uint(free) {
				out = append(out, canon[:len(canon)-1]+string(alpha[alt]))
			}
		}
	}
	return out
}

// RegBuilt is the built ceremony in pieces, so that later mutations can re-assemble it.
type RegBuilt struct {
	Spec     *RegSpec
	Cred     *KeyPair
	AuthData []byte
	Stmt     []byte // CBOR map
	CDJ      []byte
	CDHash   []byte
	RawID    []byte
	FmtText  string
}

func (b *RegBuilt) AttObj() []byte {
	return cborMap(cborText("fmt"), cborText(b.FmtText), cborText("attStmt"), b.Stmt, cborText("authData"), cborBytes(b.AuthData))
}

func (b *RegBuilt) Op() M {
	s := b.Spec
	op := M{"op": "register", "origin": hx([]byte(s.Origin)), "challenge": hx(s.Challenge), "userId": hx(s.UserID),
		"algs": s.Algs, "rawId": hx(b.RawID), "cdj": hx(b.CDJ), "attObj": hx(b.AttObj()), "_fmt": s.Format}
	if s.AuthSelUV != nil {
		op["authSelUV"] = hx([]byte(*s.AuthSelUV))
	} else {
		op["authSelUV"] = nil
	}
	if s.Store != nil {
		op["store"] = s.Store
	} else {
		op["store"] = []M{}
	}
	if s.VerifyOpt != nil {
		op["verifyOpts"] = s.VerifyOpt
	}
	if s.Inert != nil {
		op["inert"] = s.Inert
	}
	if s.Get != "" {
		op["get"] = s.Get
	}
	if s.Set != "" {
		op["set"] = s.Set
	}
	return op
}

func (b *RegBuilt) AttestOp(verifier string) M {
	op := M{"op": "attest", "attObj": hx(b.AttObj()), "cdHash": hx(b.CDHash), "_fmt": b.Spec.Format}
	if verifier != "" {
		op["verifier"] = verifier
	}
	return op
}

func hostOf(origin string) string {
	// harness-local: origins it generates are scheme://host[:port]
	h := origin
	for i := 0; i+2 < len(h); i++ {
		if h[i:i+3] == "://" {
			h = h[i+3:]
			break
		}
	}
	if len(h) > 0 && h[0] == '[' {
		for i := range h {
			if h[i] == ']' {
				return h[1:i]
			}
		}
	}
	for i := range h {
		if h[i] == ':' || h[i] == '/' {
			return h[:i]
		}
	}
	return h
}

var honestOrigins = []string{"https://example.com", "https://login.example.com:8443", "http://localhost:3000", "https://a.b.c.example.org", "https://xn--bcher-kva.example", "https://192.168.1.10", "https://[2001:db8::1]:8443", "https://intranet"}

func newRegSpec(r *RNG, format string, credAlg int) *RegSpec {
	origin := pick(r, honestOrigins)
	s := &RegSpec{Format: format, CredAlg: credAlg, Origin: origin, Client: origin, Challenge: r.Bytes(16 + r.Intn(32)),
		UserID: r.Bytes(pick(r, []int{1 + r.Intn(16), 1 + r.Intn(16), 1 + r.Intn(16), 64, 65 + r.Intn(40)})), CredID: r.Bytes(pick(r, []int{1, 16, 16, 32, 32, 64, 200})), AAGUID: r.Bytes(16),
		Flags: 0x41, Counter: uint32(r.U64() >> uint(r.Intn(33))), Algs: []int{credAlg}, Dev: map[string]bool{}, FixedKey: true, Var: -1}
	if r.P(1, 40) {
		s.CredID = r.Bytes(pick(r, []int{0, 255, 256, 1023}))
	}
	if r.Bool() {
		s.Flags |= 0x04
	}
	if r.P(1, 3) {
		s.Flags |= byte(r.Intn(4)) << 3 // BE / BS bits
	}
	if r.P(1, 4) {
		s.Flags |= 0x80
		s.Ext = pick(r, [][]byte{cborMap(cborText("credProtect"), cborUint(uint64(1+r.Intn(3)))), cborMap(cborText("hmac-secret"), []byte{0xf5}, cborText("credProtect"), cborUint(2)),
			cborMap(cborText("credBlob"), []byte{0xf5}, cborText("minPinLength"), cborUint(4)), cborMap(cborText("hmac-secret"), []byte{0xf4}), cborMap(cborText("largeBlobKey"), cborBytes(r.Bytes(32))), cborMap()})
	}
	if r.P(1, 2) {
		s.Algs = append([]int{algES256, algRS256, algEdDSA}, credAlg)
	}
	switch r.Intn(4) {
	case 0:
		uv := pick(r, []string{"preferred", "discouraged", "required", ""})
		if uv == "required" {
			s.Flags |= 0x04
		}
		s.AuthSelUV = &uv
	case 1:
		uv := "required"
		s.Flags |= 0x04
		s.AuthSelUV = &uv
	}
	if r.P(1, 3) {
		// benign origin variation: subdomain, other scheme, other port
		h := hostOf(origin)
		if !(len(h) > 0 && (h[0] >= '0' && h[0] <= '9' || h[0] == '2')) || true {
			switch r.Intn(3) {
			case 0:
				if origin[len(origin)-1] != ']' && h != "192.168.1.10" && h != "2001:db8::1" {
					s.Client = "https://sub." + h
				}
			case 1:
				s.Client = "http://" + origin[len("https://"):]
				if origin[:5] != "https" {
					s.Client = origin
				}
			case 2:
				if h != "2001:db8::1" {
					s.Client = "https://" + h + ":9443"
				}
			}
		}
	}
	if r.P(1, 3) {
		s.CDExtra = benignCDExtra(r)
	}
	if r.P(1, 2) {
		s.Inert = inertOptions(r, origin)
	}
	return s
}

// admissible credential key algorithms per format (what a conforming authenticator of that format can produce)
// otherKindAlg: an algorithm whose keys are of another kind than `kind` (ec / rsa / ed)
func otherKindAlg(r *RNG, v int, kind string) int {
	switch kind {
	case "ec":
		return variant(r, v, []int{algRS256, algEdDSA, algPS256})
	case "rsa":
		return variant(r, v, []int{algES256, algEdDSA, algES384})
	}
	return variant(r, v, []int{algRS256, algES256, algPS256})
}

func credAlgsFor(format string) []int {
	switch format {
	case "fido-u2f":
		return []int{algES256}
	case "tpm":
		return []int{algRS256, algRS1, algPS256, algES256, algES384, algRS384, algRS512, algPS384, algPS512, algES512}
	case "android-key", "apple":
		return []int{algES256, algES384, algES512, algRS256, algPS256, algRS384, algEdDSA}
	}
	return allAlgs
}

func attAlgsFor(format string) []int {
	switch format {
	case "packed-x5c":
		return []int{algES256, algES384, algES512, algRS256, algRS1, algPS256, algRS384, algRS512, algPS384, algPS512, algEdDSA}
	case "fido-u2f":
		return []int{algES256}
	case "tpm":
		return []int{algRS256, algRS1, algPS256, algES256, algES384, algES512, algRS384, algPS384}
	}
	return []int{algES256}
}

// algItem: the statement's alg member; the deviation alg.uint64Wrapped writes it as the CBOR UNSIGNED 64-bit integer 2^64 + alg (which is
// not the negative COSE identifier: the member is then not an algorithm at all)
// sigItem: the statement's sig member; the deviation sig.trailingBytes appends bytes to a genuine signature (a signature of the wrong
// length is not a signature, whatever its leading bytes are)
func sigItem(r *RNG, s *RegSpec, sig []byte) []byte {
	if s.d("sig.trailingBytes") {
		sig = append(append([]byte{}, sig...), pick(r, [][]byte{{0}, {1}, r.Bytes(8), make([]byte, 32)})...)
	}
	return cborBytes(sig)
}

func algItem(s *RegSpec, alg int64) []byte {
	if s.d("alg.uint64Wrapped") {
		v := uint64(alg)
		return []byte{0x1b, byte(v >> 56), byte(v >> 48), byte(v >> 40), byte(v >> 32), byte(v >> 24), byte(v >> 16), byte(v >> 8), byte(v)}
	}
	return cborInt(alg)
}

func stdB64(b []byte) string { return base64.StdEncoding.EncodeToString(b) }

// buildRegistration constructs the response; deviations named in s.Dev alter exactly what their name says while
// everything else (including signatures, re-made by the attacker's own attestation key) stays consistent.
func buildRegistration(r *RNG, s *RegSpec) *RegBuilt {
	aaguidExtLen := -1
	if s.d("x5c.aaguidShortZeroPadded") {
		// the extension carries only a prefix of the AAGUID (possibly nothing); the authenticator data carries that prefix padded with zeros
		aaguidExtLen = variant(r, s.Var, []int{0, 1, 8, 15})
		ag := make([]byte, 16)
		copy(ag, s.AAGUID[:aaguidExtLen])
		s.AAGUID = ag
	}
	cred := s.Cred
	if cred == nil {
		switch {
		case s.Format == "fido-u2f" && s.d("u2f.credNotEC2"):
			cred = genKeyPair(r, pick(r, []int{algRS256, algEdDSA, algPS256}))
			s.Algs = allAlgs
		case s.d("certKey.sameXYOtherCurve"):
			// the certificate key is a P-256 key; the credential key (below) carries its coordinates under ANOTHER curve and that curve's algorithm
			cred = genKeyPairOnCurve(r, algES256, 1, false)
			s.CredAlg = pick(r, []int{algES384, algES512})
			s.Algs = allAlgs
		case s.d("key.okpOversize") && s.Format != "tpm" && s.Format != "fido-u2f":
			s.CredAlg = algEdDSA
			cred = genKeyPair(r, algEdDSA)
			s.Algs = allAlgs
		case s.d("key.rsaExponentAliased"):
			s.CredAlg = pick(r, []int{algRS256, algPS256, algRS384})
			cred = genKeyPair(r, s.CredAlg)
			s.Algs = allAlgs
		case s.d("key.noAlg"):
			// the deviation is about EC2 keys (an OKP key without alg is Ed25519 by definition)
			crv := 1
			if s.Format != "fido-u2f" {
				crv = 1 + r.Intn(3)
			}
			s.CredAlg = []int{0, algES256, algES384, algES512}[crv]
			cred = genKeyPairOnCurve(r, s.CredAlg, crv, false)
			s.Algs = allAlgs
		case s.Format == "fido-u2f" && s.d("u2f.credWiderCurve"):
			// an EC2 credential key whose coordinates do not fit the 32 bytes the signed data has room for
			crv := 2 + r.Intn(2)
			s.CredAlg = []int{0, algES256, algES384, algES512}[crv]
			cred = genKeyPairOnCurve(r, s.CredAlg, crv, false)
			s.Algs = allAlgs
		case s.Format == "fido-u2f":
			cred = genKeyPairOnCurve(r, s.CredAlg, 1, r.P(1, 4))
		case kindOfAlg(s.CredAlg) == "ec" && (s.Format == "tpm" || s.Format == "android-key" || s.Format == "apple"):
			crv := map[int]int{algES256: 1, algES384: 2, algES512: 3}[s.CredAlg]
			cred = genKeyPairOnCurve(r, s.CredAlg, crv, r.P(1, 5))
		default:
			cred = genKeyPair(r, s.CredAlg)
		}
	}
	b := &RegBuilt{Spec: s, Cred: cred, FmtText: fmtID(s.Format), RawID: s.CredID}
	// client data
	cd := ClientDataSpec{Type: "webauthn.create", Challenge: b64u(s.Challenge), Origin: s.Client, Extra: s.CDExtra, Shuffle: r.P(1, 2)}
	if s.d("cd.type") {
		cd.Type = variant(r, s.Var, []string{"webauthn.get", "", "webauthn.create ", "WEBAUTHN.CREATE", "webauthn.creat", "create"})
	}
	if s.d("cd.challenge") {
		cd.Challenge = variant(r, s.Var, append([]string{b64u(append(append([]byte{}, s.Challenge...), 0)), stdB64(s.Challenge) + "=", "", b64u(s.Challenge[1:]), b64u(s.Challenge) + "A", hx(s.Challenge)}, nonCanonicalB64(b64u(s.Challenge))...))
	}
	if s.d("cd.origin") {
		h := hostOf(s.Origin)
		cd.Origin = variant(r, s.Var, []string{"https://evil.example", "https://evil" + h, "https://" + h + ".evil.com", "https://evil.com/" + h, "https://" + h + "@evil.com", "", "https://evil.com?" + h, "https://evil.com#" + h, "null", "https://www.not" + h, "https://x" + h + ":443", "https://login.evil" + h, "https://attacker.test.", "https://" + h + ".", "https://login.attacker.test.:8443", "https://" + h + "..", "https://evil.example./", parentOrigin(h)})
	}
	if s.d("cd.memberAbsent") {
		// one of the three members is not in the document at all, or is null: the decoded member is the empty string, whatever a
		// decoder that reuses its target may have left there from an earlier ceremony
		cd.Absent = map[string]string{variant(r, s.Var, []string{"type", "challenge", "origin"}): pick(r, []string{"omit", "omit", "null"})}
	}
	b.CDJ = cd.JSON(r)
	if s.d("cd.malformed") {
		// not one JSON object: trailing data after the object (the signature / hash covers exactly these bytes), truncated, another value
		if r.Bool() {
			b.CDJ = append(append([]byte{}, b.CDJ...), []byte(pick(r, []string{"x", "{}", " garbage", ",", "}", "\x00", "null", " []"}))...)
		} else {
			b.CDJ = pick(r, [][]byte{[]byte("{"), []byte("[]"), nil, []byte(`{"type":1}`), b.CDJ[:len(b.CDJ)-1]})
		}
	}
	b.CDHash = sha(b.CDJ)
	// authenticator data
	key := cred.COSE(s.FixedKey)
	if s.d("key.okpOversize") && cred.Kind != "ed" {
		s.Dev["key.unsupported"] = true // formats without Ed25519 credential keys: another unsupported key instead
	}
	if s.d("key.unsupported") {
		key = pick(r, [][]byte{cborMap(cborInt(1), cborInt(4), cborInt(3), cborInt(-7)), cborMap(cborInt(1), cborInt(2), cborInt(3), cborInt(-7), cborInt(-1), cborInt(8), cborInt(-2), cborBytes(r.Bytes(32)), cborInt(-3), cborBytes(r.Bytes(32))), cborBytes([]byte{1, 2}), cborMap()})
	}
	if s.d("key.noAlg") && cred.Kind == "ec" {
		// an EC2 key that declares no algorithm (member 3 absent, or 0): there is no algorithm that could appear in pubKeyCredParams
		size := (cred.EC.Curve.Params().BitSize + 7) / 8
		kvs := [][]byte{cborInt(1), cborInt(2), cborInt(-1), cborInt(int64(cred.Crv)), cborInt(-2), cborBytes(fixed(cred.EC.X, size)), cborInt(-3), cborBytes(fixed(cred.EC.Y, size))}
		if r.Bool() {
			kvs = append(kvs, cborInt(3), cborInt(0))
		}
		key = cborMap(kvs...)
	}
	if s.d("key.algOfOtherType") {
		// honest key material under an algorithm that belongs to another key type (an RSA key that says ES256, an EC2 key that says
		// RS256 / EdDSA, an OKP key that says ES256 / PS256), with that algorithm among pubKeyCredParams: not a supported key
		s.Algs = allAlgs
		var foreign int64
		switch cred.Kind {
		case "rsa":
			foreign = int64(variant(r, s.Var, []int{algES256, algES384, algES512, algEdDSA}))
			key = cborMap(cborInt(1), cborInt(3), cborInt(3), cborInt(foreign), cborInt(-1), cborBytes(cred.RSA.N.Bytes()), cborInt(-2), cborBytes(big.NewInt(int64(cred.RSA.E)).Bytes()))
		case "ec":
			foreign = int64(variant(r, s.Var, []int{algRS256, algPS256, algEdDSA, algRS1, algPS512}))
			size := (cred.EC.Curve.Params().BitSize + 7) / 8
			key = cborMap(cborInt(1), cborInt(2), cborInt(3), cborInt(foreign), cborInt(-1), cborInt(int64(cred.Crv)), cborInt(-2), cborBytes(fixed(cred.EC.X, size)), cborInt(-3), cborBytes(fixed(cred.EC.Y, size)))
		default:
			foreign = int64(variant(r, s.Var, []int{algES256, algRS256, algPS256, algES512}))
			key = cborMap(cborInt(1), cborInt(1), cborInt(3), cborInt(foreign), cborInt(-1), cborInt(6), cborInt(-2), cborBytes(cred.Ed.Public().(ed25519.PublicKey)))
		}
	}
	if s.d("certKey.sameXYOtherCurve") && cred.Kind == "ec" {
		crv := map[int]int{algES384: 2, algES512: 3}[s.CredAlg]
		key = cborMap(cborInt(1), cborInt(2), cborInt(3), cborInt(int64(s.CredAlg)), cborInt(-1), cborInt(int64(crv)), cborInt(-2), cborBytes(fixed(cred.EC.X, 32)), cborInt(-3), cborBytes(fixed(cred.EC.Y, 32)))
	}
	if s.d("key.okpOversize") && cred.Kind == "ed" {
		// an Ed25519 key whose x member is longer than 32 bytes (the genuine key followed by more): not a key of that curve
		key = cborMap(cborInt(1), cborInt(1), cborInt(3), cborInt(-8), cborInt(-1), cborInt(6), cborInt(-2), cborBytes(append(append([]byte{}, cred.Ed.Public().(ed25519.PublicKey)...), pick(r, [][]byte{{0}, make([]byte, 8), r.Bytes(32)})...)))
	}
	if s.d("key.rsaExponentAliased") && cred.Kind == "rsa" {
		// the same modulus with the exponent 2^64 + e written in nine bytes: a different RSA key (and not one the library supports)
		e := uint64(cred.RSA.E)
		eb := []byte{1, byte(e >> 56), byte(e >> 48), byte(e >> 40), byte(e >> 32), byte(e >> 24), byte(e >> 16), byte(e >> 8), byte(e)}
		key = cborMap(cborInt(1), cborInt(3), cborInt(3), cborInt(int64(s.CredAlg)), cborInt(-1), cborBytes(cred.RSA.N.Bytes()), cborInt(-2), cborBytes(eb))
	}
	var oversizeX []byte
	if s.d("u2f.coordOversize") && cred.Kind == "ec" {
		// a key that says P-256 but whose x coordinate needs 33 bytes (the parser does not compare coordinates with the field size)
		oversizeX = append([]byte{byte(1 + r.Intn(255))}, fixed(cred.EC.X, 32)...)
		key = cborMap(cborInt(1), cborInt(2), cborInt(3), cborInt(-7), cborInt(-1), cborInt(1), cborInt(-2), cborBytes(oversizeX), cborInt(-3), cborBytes(fixed(cred.EC.Y, 32)))
	}
	var dupKey *KeyPair
	if s.d("u2f.dupCoordinates") && cred.Kind == "ec" {
		// the COSE key repeats the coordinate labels: {.., -2: xA, -3: yA, -2: xB, -3: yB}; the key the library parses (and stores) has
		// the FIRST pair; the statement below is made for the SECOND
		dupKey = genKeyPairOnCurve(r, algES256, 1, false)
		key = cborMap(cborInt(1), cborInt(2), cborInt(3), cborInt(-7), cborInt(-1), cborInt(1), cborInt(-2), cborBytes(fixed(cred.EC.X, 32)), cborInt(-3), cborBytes(fixed(cred.EC.Y, 32)),
			cborInt(-2), cborBytes(fixed(dupKey.EC.X, 32)), cborInt(-3), cborBytes(fixed(dupKey.EC.Y, 32)))
	}
	ad := AuthDataSpec{RPIDHash: sha([]byte(hostOf(s.Origin))), Flags: s.Flags, Counter: s.Counter, AAGUID: s.AAGUID, CredID: s.CredID, Key: key, Ext: s.Ext}
	if s.Format == "fido-u2f" {
		ad.AAGUID = make([]byte, 16)
	}
	if s.d("ad.rpIdHash") {
		alts := [][]byte{sha([]byte(s.Origin)), sha([]byte("evil.example")), sha([]byte(hostOf(s.Origin) + ".")), r.Bytes(32), sha([]byte(strings.ToUpper(hostOf(s.Origin)) + "x")), make([]byte, 32)}
		if s.Inert == nil {
			s.Inert = inertOptions(r, s.Origin)
		}
		if id := unhx(s.Inert["rpId"].(string)); string(id) != hostOf(s.Origin) {
			alts = append(alts, sha(id), sha(id)) // the hash of what options.rp.id says
		}
		ad.RPIDHash = variant(r, s.Var, alts)
	}
	if s.d("ad.noUP") {
		ad.Flags &^= 0x01
	}
	if s.d("ad.noUV") {
		ad.Flags &^= 0x04
	}
	if s.d("ad.noACD") {
		ad.Flags &^= 0x40
	}
	b.AuthData = ad.Bytes()
	if s.d("rawId.other") {
		b.RawID = variant(r, s.Var, [][]byte{append(append([]byte{}, s.CredID...), 0), r.Bytes(len(s.CredID)), []byte("victim-cred"), {}, s.CredID[:len(s.CredID)/2]})
		if string(b.RawID) == string(s.CredID) {
			b.RawID = append(b.RawID, 1)
		}
	}
	signed := append(append([]byte{}, b.AuthData...), b.CDHash...)
	if s.d("ad.trailingUnsigned") {
		// bytes behind the structured part of the authenticator data that the signer never saw: what is signed is D ‖ hash, what is
		// presented is D ‖ T (a verifier that re-marshals the parsed structure loses T; the whole authenticator data is covered)
		b.AuthData = append(append([]byte{}, b.AuthData...), pick(r, [][]byte{{0}, r.Bytes(4), make([]byte, 16)})...)
	}
	if s.d("rawId.lengthVariant") {
		b.RawID = pick(r, [][]byte{append(append([]byte{}, s.CredID...), make([]byte, 3)...), append(append([]byte{}, s.CredID...), r.Bytes(256)...), append(append([]byte{}, s.CredID...), make([]byte, 256)...)})
	}
	if s.d("sig.otherMessage") {
		signed = append(append([]byte{}, b.AuthData...), sha([]byte("other client data"))...)
	}
	mkSig := func(k *KeyPair, alg int, msg []byte) []byte {
		sig := k.SignAs(alg, msg)
		if s.d("sig.bitflip") {
			sig[r.Intn(len(sig))] ^= 1 << uint(r.Intn(8))
		}
		return sig
	}
	stmtOf := func(kvs ...[]byte) []byte { return cborMap(kvs...) }
	x5cOf := func(ders ...[]byte) []byte {
		var items [][]byte
		for _, d := range ders {
			items = append(items, cborBytes(d))
		}
		return cborArray(items...)
	}
	switch s.Format {
	case "none":
		b.Stmt = cborMap()
	case "packed-self":
		signer := cred
		if s.d("sig.otherKey") {
			signer = genKeyPair(r, s.CredAlg)
			if signer.Kind == "rsa" {
				for signer.RSA == cred.RSA {
					signer = genKeyPair(r, s.CredAlg)
				}
			}
		}
		alg := s.CredAlg
		if s.d("self.algMismatch") {
			alg = pick(r, []int{algES256, algRS256, algEdDSA, algPS256, 0, 7})
			for alg == s.CredAlg {
				alg = pick(r, allAlgs)
			}
		}
		b.Stmt = stmtOf(cborText("alg"), algItem(s, int64(alg)), cborText("sig"), sigItem(r, s, mkSig(signer, s.CredAlg, signed)))
	case "packed-x5c":
		att := genKeyPair(r, s.AttAlg)
		// RSA keys come from a small pool: the attestation key must not happen to BE the credential key (a statement stripped of its x5c
		// would then be a genuine self attestation, and "made by another key" would not be another key)
		for sameKey(att, cred) {
			att = genKeyPair(r, s.AttAlg)
		}
		signer := att
		if s.d("sig.otherKey") {
			signer = genKeyPair(r, s.AttAlg)
			if signer.Kind == "rsa" {
				for signer.RSA == att.RSA {
					signer = genKeyPair(r, s.AttAlg)
				}
			}
		}
		cs := CertSpec{Subject: packedSubject()}
		if r.P(1, 2) || s.d("x5c.aaguidMismatch") || s.d("x5c.aaguidCritical") {
			ag := s.AAGUID
			if s.d("x5c.aaguidMismatch") {
				ag = r.Bytes(16)
				if r.P(1, 3) {
					ag = make([]byte, 16)
				}
				if string(ag) == string(s.AAGUID) {
					ag[0] ^= 1
				}
			}
			cs.Extensions = append(cs.Extensions, aaguidExtension(ag, s.d("x5c.aaguidCritical")))
		}
		if aaguidExtLen >= 0 {
			cs.Extensions = []pkix.Extension{{Id: oidAAGUIDExt, Value: append([]byte{0x04, byte(aaguidExtLen)}, s.AAGUID[:aaguidExtLen]...)}}
		}
		if s.d("x5c.aaguidMalformed") {
			cs.Extensions = []pkix.Extension{{Id: oidAAGUIDExt, Value: pick(r, [][]byte{{0x04, 0x02, 1, 2}, {0x05, 0x00}, append([]byte{0x04, 0x11}, make([]byte, 17)...), {}})}}
		}
		if s.d("x5c.v1") {
			cs.Version1 = true
			cs.Extensions = nil
		}
		if s.d("x5c.isCA") {
			cs.IsCA = true
		}
		if s.d("x5c.noC") {
			cs.Subject.Country = nil
		}
		if s.d("x5c.noO") {
			cs.Subject.Organization = nil
		}
		if s.d("x5c.badOU") {
			cs.Subject.OrganizationalUnit = variant(r, s.Var, [][]string{nil, {"Authenticator Attestation "}, {"authenticator attestation"}, {"Authenticator", "Attestation"}, {"Other"}, {""}, {"Authenticator Attestation", "x"}})
		}
		if s.d("x5c.noCN") {
			cs.Subject.CommonName = ""
		}
		if s.d("x5c.emptyC") {
			cs.Subject.Country = variant(r, s.Var, [][]string{{""}, {"", ""}})
		}
		if s.d("x5c.emptyO") {
			cs.Subject.Organization = variant(r, s.Var, [][]string{{""}, {"", ""}})
		}
		if s.d("x5c.emptyCN") {
			cs.Subject.CommonName = ""
			cs.Subject.ExtraNames = []pkix.AttributeTypeAndValue{{Type: asn1.ObjectIdentifier{2, 5, 4, 3}, Value: ""}}
		}
		der := makeCert(att.Public(), cs)
		chain := [][]byte{der}
		if r.P(1, 3) {
			chain = append(chain, caCert.Raw)
		}
		if s.d("x5c.leafSecond") {
			chain = [][]byte{caCert.Raw, der}
		}
		b.Stmt = stmtOf(cborText("alg"), algItem(s, int64(s.AttAlg)), cborText("sig"), sigItem(r, s, mkSig(signer, s.AttAlg, signed)), cborText("x5c"), x5cOf(chain...))
		if len(s.Dev) == 0 && r.P(1, 3) {
			// a further statement member next to x5c (ECDAA was dropped from the format; the member is not read): the verdict does not
			// depend on it, nor on the order in which a map happens to be walked
			b.Stmt = stmtOf(cborText("alg"), algItem(s, int64(s.AttAlg)), cborText("ecdaaKeyId"), cborBytes(r.Bytes(16)), cborText("sig"), sigItem(r, s, mkSig(signer, s.AttAlg, signed)), cborText("x5c"), x5cOf(chain...))
		}
		if s.d("x5c.empty") {
			b.Stmt = stmtOf(cborText("alg"), algItem(s, int64(s.AttAlg)), cborText("sig"), sigItem(r, s, mkSig(signer, s.AttAlg, signed)), cborText("x5c"), cborArray())
		}
	case "fido-u2f":
		att := genKeyPairOnCurve(r, algES256, 1, false)
		if s.d("u2f.certP384") {
			att = genKeyPairOnCurve(r, algES384, 2, false)
		}
		if s.d("u2f.certRSA") {
			att = genKeyPair(r, algRS256)
		}
		signer := att
		if s.d("sig.otherKey") {
			signer = genKeyPairOnCurve(r, algES256, 1, false)
		}
		size := 32
		x, y := make([]byte, size), make([]byte, size)
		if cred.Kind == "ec" {
			xb, yb := cred.EC.X.Bytes(), cred.EC.Y.Bytes()
			if len(xb) <= 32 && len(yb) <= 32 {
				copy(x[32-len(xb):], xb)
				copy(y[32-len(yb):], yb)
			} else {
				copy(x, xb)
				copy(y, yb)
			}
			if oversizeX != nil {
				copy(x, oversizeX) // the leading 32 of its 33 bytes
			}
			if dupKey != nil {
				copy(x, fixed(dupKey.EC.X, 32))
				copy(y, fixed(dupKey.EC.Y, 32))
			}
		}
		msg := []byte{0}
		msg = append(msg, ad.RPIDHash...)
		msg = append(msg, b.CDHash...)
		msg = append(msg, s.CredID...)
		msg = append(msg, 4)
		msg = append(msg, x...)
		msg = append(msg, y...)
		if s.d("sig.otherMessage") {
			msg[1] ^= 1
		}
		signAlg := algES256
		if s.d("u2f.credWiderCurve") {
			signAlg = s.CredAlg // the verifier checks the signature with the credential algorithm's hash
		} else if signer.Kind == "rsa" {
			signAlg = algRS256
		} else if signer.Crv == 2 {
			signAlg = algES256 // P-384 key, SHA-256 digest as the verifier will use the credential algorithm's X.509 id
		}
		der := makeCert(att.Public(), CertSpec{Subject: pkix.Name{CommonName: "U2F device"}})
		chain := [][]byte{der}
		if s.d("u2f.twoCerts") {
			chain = append(chain, caCert.Raw)
		}
		b.Stmt = stmtOf(cborText("sig"), sigItem(r, s, mkSig(signer, signAlg, msg)), cborText("x5c"), x5cOf(chain...))
		if s.d("u2f.noCerts") {
			b.Stmt = stmtOf(cborText("sig"), sigItem(r, s, mkSig(signer, signAlg, msg)), cborText("x5c"), cborArray())
		}
		if s.d("u2f.emptyX5cEntries") {
			// x5c has more than one element: the certificate and one or more zero-length byte strings
			chain = pick(r, [][][]byte{{der, {}}, {{}, der}, {{}, der, {}, {}}, {der, {}, {}}})
			b.Stmt = stmtOf(cborText("sig"), sigItem(r, s, mkSig(signer, signAlg, msg)), cborText("x5c"), x5cOf(chain...))
		}
	case "android-key":
		certKey := cred
		akAlg := s.CredAlg
		if s.d("ak.certKeyOtherKind") {
			// the certificate holds a key of ANOTHER kind than the credential key (RSA against EC2 / OKP and so on); the statement is
			// consistently made with the certificate's key, so the key comparison is reached
			akAlg = otherKindAlg(r, s.Var, cred.Kind)
			certKey = genKeyPair(r, akAlg)
		}
		if s.d("ak.certKeyOther") {
			akAlg = s.CredAlg // (in combination with the deviation above: this one decides)
			certKey = genKeyPair(r, s.CredAlg)
			if certKey.Kind == "rsa" {
				for certKey.RSA == cred.RSA {
					certKey = genKeyPair(r, s.CredAlg)
				}
			}
		}
		chal := b.CDHash
		if s.d("ak.challengeOther") {
			chal = sha([]byte("other"))
		}
		if s.d("ak.challengeShort") {
			// a proper prefix of the right value (or nothing), or the right value followed by more
			chal = pick(r, [][]byte{b.CDHash[:16], {}, b.CDHash[:31], append(append([]byte{}, b.CDHash...), 0)})
		}
		purpose := []int{2, 3}
		if s.d("ak.noSign") {
			purpose = pick(r, [][]int{{3}, {}, {0, 1}})
		}
		origin := 0
		if s.d("ak.originOther") {
			origin = pick(r, []int{1, 2, 3})
		}
		kd := keyDescriptionDER(chal, s.d("ak.allAppsSW"), s.d("ak.allAppsTEE"), origin, purpose, false)
		if s.d("ak.schemaNull.allApps") {
			// schema-conformant encoding (NULL-typed elements as EXPLICIT NULL, independent encoder): allApplications PRESENT in the TEE list
			kd = kdSpec{attVersion: 3, secLevel: 1, challenge: chal, teeAll: true, hasOrigin: true, teeOrigin: 0, teePurpose: []int{2}, keySize: 256, nullStyle: "schema"}.DER()
		}
		if s.d("ak.schemaNull.originAfterNull") {
			// noAuthRequired (NULL) precedes origin = IMPORTED in the TEE list
			kd = kdSpec{attVersion: 3, secLevel: 1, challenge: chal, teeNoAuth: true, hasOrigin: true, teeOrigin: 2, teePurpose: []int{2}, keySize: 256, nullStyle: "schema"}.DER()
		}
		if s.d("ak.schemaUnknownTag.originAfter") {
			// a tag the struct does not have (KeyMint's earlyBootOnly [305], or a future one) precedes origin = IMPORTED; no NULL-typed member
			// the struct knows is involved, and flags are written in encoding/asn1's own form
			extra := pick(r, [][]byte{derExplicit(305, derNull()), derExplicit(305, derInt(1)), derExplicit(404, derInt(7)), derExplicit(599, derOctets([]byte("x")))})
			kd = kdSpec{attVersion: 100, secLevel: 1, challenge: chal, hasOrigin: true, teeOrigin: 2, teePurpose: []int{2}, keySize: 256, nullStyle: "go", teeExtra: [][]byte{extra}}.DER()
		}
		if s.d("ak.schemaUnknownTag.allAppsAfter") {
			extra := pick(r, [][]byte{derExplicit(305, derNull()), derExplicit(404, derInt(7))})
			kd = kdSpec{attVersion: 100, secLevel: 1, challenge: chal, teeAll: true, hasOrigin: true, teeOrigin: 0, teePurpose: []int{2}, keySize: 256, nullStyle: "go", teeExtra: [][]byte{extra}}.DER()
		}
		if s.d("ak.schemaMistyped.originAfter") {
			// a member the struct does have, with content of another type than the struct expects (ecCurve [10] / rsaPublicExponent [200] /
			// activeDateTime [400] holding an OCTET STRING, a NULL or a SEQUENCE), precedes origin = IMPORTED: same stall as an unknown tag
			extra := pick(r, [][]byte{derExplicit(10, derOctets([]byte{1})), derExplicit(200, derNull()), derExplicit(400, derOctets(nil)), derExplicit(200, derOctets([]byte{1, 0, 1}))})
			kd = kdSpec{attVersion: 100, secLevel: 1, challenge: chal, hasOrigin: true, teeOrigin: 2, teePurpose: []int{2}, keySize: 256, nullStyle: "go", teeExtra: [][]byte{extra}}.DER()
		}
		if s.d("ak.schemaStyle.honest") {
			// schema-conformant encoding of an honest description WITHOUT NULL-typed elements: must be accepted
			kd = kdSpec{attVersion: 3, secLevel: 1, challenge: chal, hasOrigin: true, teeOrigin: 0, teePurpose: []int{2, 3}, keySize: 256, osVersion: 110000, nullStyle: "schema"}.DER()
		}
		exts := []pkix.Extension{{Id: oidAndroidKeyX, Value: kd}}
		if s.d("ak.noExtension") {
			exts = nil
		}
		der := makeCert(certKey.Public(), CertSpec{Subject: pkix.Name{CommonName: "Android Keystore Key"}, Extensions: exts})
		signer := certKey
		if s.d("sig.otherKey") {
			signer = genKeyPair(r, akAlg)
			if signer.Kind == "rsa" {
				for signer.RSA == certKey.RSA {
					signer = genKeyPair(r, akAlg)
				}
			}
		}
		b.Stmt = stmtOf(cborText("alg"), algItem(s, int64(akAlg)), cborText("sig"), sigItem(r, s, mkSig(signer, akAlg, signed)), cborText("x5c"), x5cOf(leafFirstOrSecond(s, der)...))
	case "apple":
		certKey := cred
		if s.d("apple.certKeyOtherKind") {
			certKey = genKeyPair(r, otherKindAlg(r, s.Var, cred.Kind))
		}
		if s.d("apple.certKeyOther") {
			certKey = genKeyPair(r, s.CredAlg)
			if certKey.Kind == "rsa" {
				for certKey.RSA == cred.RSA {
					certKey = genKeyPair(r, s.CredAlg)
				}
			}
		}
		nonce := sha(signed)
		if s.d("apple.nonceOther") {
			nonce = sha(append([]byte{1}, signed...))
		}
		if s.d("apple.nonceShort") {
			nonce = pick(r, [][]byte{nonce[:16], {}, nonce[:31], append(append([]byte{}, nonce...), 0)})
		}
		exts := []pkix.Extension{appleNonceExt(nonce)}
		if s.d("apple.noNonce") {
			exts = nil
		}
		der := makeCert(certKey.Public(), CertSpec{Subject: pkix.Name{CommonName: "Apple anonymous attestation"}, Extensions: exts})
		b.Stmt = stmtOf(cborText("x5c"), x5cOf(leafFirstOrSecond(s, der)...))
	case "tpm":
		aik := genKeyPair(r, s.AttAlg)
		for sameKey(aik, cred) {
			aik = genKeyPair(r, s.AttAlg)
		}
		nameAlg := pick(r, []tpm2.Algorithm{tpm2.AlgSHA256, tpm2.AlgSHA1, tpm2.AlgSHA384, tpm2.AlgSHA256, tpm2.AlgSHA3_256, tpm2.AlgSHA512})
		if s.d("tpm.nameAlgForeignSameSize") {
			nameAlg = pick(r, []tpm2.Algorithm{tpm2.AlgSHA256, tpm2.AlgSHA384, tpm2.AlgSHA3_256, tpm2.AlgSHA512})
		}
		pubKey := cred
		if s.d("tpm.pubAreaOtherKey") {
			pubKey = genKeyPair(r, s.CredAlg)
			if pubKey.Kind == "ec" {
				pubKey = genKeyPairOnCurve(r, s.CredAlg, cred.Crv, false)
			} else {
				for pubKey.RSA == cred.RSA {
					pubKey = genKeyPair(r, s.CredAlg)
				}
			}
		}
		pub := tpmPublicFor(pubKey, nameAlg)
		pubEnc, err := pub.Encode()
		if err != nil {
			panic(err)
		}
		name := tpm2.Name{Digest: &tpm2.HashValue{Alg: nameAlg, Value: tpmHash(nameAlg, pubEnc)}}
		if s.d("tpm.wrongName") {
			name.Digest.Value = tpmHash(nameAlg, append([]byte{0}, pubEnc...))
		}
		if s.d("tpm.nameAlgMismatch") {
			other := tpm2.AlgSHA1
			if nameAlg == tpm2.AlgSHA1 {
				other = tpm2.AlgSHA256
			}
			name = tpm2.Name{Digest: &tpm2.HashValue{Alg: other, Value: tpmHash(other, pubEnc)}}
		}
		if s.d("tpm.nameAlgForeignSameSize") {
			// digest under pubArea's name algorithm, tagged with another algorithm of the same digest size
			foreign := map[tpm2.Algorithm]tpm2.Algorithm{tpm2.AlgSHA256: tpm2.AlgSHA3_256, tpm2.AlgSHA384: tpm2.AlgSHA3_384, tpm2.AlgSHA3_256: tpm2.AlgSHA256, tpm2.AlgSHA512: tpm2.AlgSHA3_512}
			name = tpm2.Name{Digest: &tpm2.HashValue{Alg: foreign[nameAlg], Value: tpmHash(nameAlg, pubEnc)}}
		}
		if s.d("tpm.nameHandle") {
			h := tpmutilHandle(0x81000001)
			name = tpm2.Name{Handle: &h}
		}
		if s.d("tpm.nameEmpty") {
			name = tpm2.Name{}
		}
		extra := digestFor(algHash(s.AttAlg), signed)
		if s.d("tpm.extraDataShort") {
			// a proper prefix of the right digest (possibly empty): still not the digest
			extra = extra[:variant(r, s.Var, []int{0, 1, 2, len(extra) - 1, len(extra) / 2})]
		}
		if s.d("tpm.extraDataOther") {
			extra = digestFor(algHash(s.AttAlg), append([]byte{1}, signed...))
		}
		magic := uint32(0xFF544347)
		if s.d("tpm.badMagic") {
			magic = pick(r, []uint32{0, 0xFF544348, 0x47435446})
		}
		typ := tpm2.TagAttestCertify
		if s.d("tpm.badType") {
			typ = tpm2.TagAttestCreation
		}
		certInfo := tpmCertInfo(extra, name, magic, typ)
		attrs := honestTPMAttrs(r)
		if s.d("tpm.sanUnknownVendor") {
			attrs[0].Val = pick(r, []string{"id:00000000", "id:12345678", "id:414D4401", "AMD", "id:414D44",
				"id:414D4420", "id:4E534D00", "id:57454320", "id:53544D00", "id:49424D20"}) // incl. registered names with the other padding byte
		}
		if s.d("tpm.sanNoModel") {
			attrs = []tpmAttr{attrs[0], attrs[2]}
		}
		if s.d("tpm.sanNoVersion") {
			attrs = attrs[:2]
		}
		if s.d("tpm.sanNoManufacturer") {
			attrs = attrs[1:]
		}
		cs := CertSpec{Extensions: []pkix.Extension{tpmSAN(attrs)}, UnknownEKU: []asn1.ObjectIdentifier{oidAIK}}
		if s.d("tpm.noSAN") {
			cs.Extensions = nil
		}
		if s.d("tpm.noEKU") {
			cs.UnknownEKU = pick(r, [][]asn1.ObjectIdentifier{nil, {{2, 23, 133, 8, 1}}})
		}
		if s.d("tpm.ekuAnyOnly") {
			// anyExtendedKeyUsage (alone, or next to other usages) is not tcg-kp-AIKCertificate
			cs.UnknownEKU = pick(r, [][]asn1.ObjectIdentifier{nil, {{2, 23, 133, 8, 1}}})
			cs.EKU = pick(r, [][]x509.ExtKeyUsage{{x509.ExtKeyUsageAny}, {x509.ExtKeyUsageAny, x509.ExtKeyUsageServerAuth}, {x509.ExtKeyUsageClientAuth, x509.ExtKeyUsageAny}})
		}
		if s.d("tpm.isCA") {
			cs.IsCA = true
		}
		if s.d("tpm.v1") {
			cs.Version1 = true
		}
		der := makeCert(aik.Public(), cs)
		signer := aik
		if s.d("sig.otherKey") {
			signer = genKeyPair(r, s.AttAlg)
			if signer.Kind == "rsa" {
				for signer.RSA == aik.RSA {
					signer = genKeyPair(r, s.AttAlg)
				}
			}
		}
		toSign := certInfo
		if s.d("sig.otherMessage") {
			toSign = append([]byte{}, certInfo...)
			toSign[len(toSign)-1] ^= 1
		}
		b.Stmt = stmtOf(cborText("ver"), cborText("2.0"), cborText("alg"), algItem(s, int64(s.AttAlg)), cborText("x5c"), x5cOf(leafFirstOrSecond(s, der)...),
			cborText("sig"), sigItem(r, s, mkSig(signer, s.AttAlg, toSign)), cborText("certInfo"), cborBytes(certInfo), cborText("pubArea"), cborBytes(pubEnc))
		if s.d("tpm.noCerts") {
			b.Stmt = stmtOf(cborText("ver"), cborText("2.0"), cborText("alg"), algItem(s, int64(s.AttAlg)), cborText("x5c"), cborArray(),
				cborText("sig"), sigItem(r, s, mkSig(signer, s.AttAlg, toSign)), cborText("certInfo"), cborBytes(certInfo), cborText("pubArea"), cborBytes(pubEnc))
		}
	case "android-safetynet":
		leafKey := genKeyPair(r, pick(r, []int{algRS256, algES256}))
		if leafKey.Kind == "ec" {
			leafKey = genKeyPairOnCurve(r, algES256, 1, false)
		}
		dns := "attest.android.com"
		if s.d("sn.wrongHost") {
			dns = pick(r, []string{"attest.android.com.evil.com", "android.com", "evil.attest.android.com"})
		}
		leaf := makeCert(leafKey.Public(), CertSpec{Subject: pkix.Name{CommonName: dns}, DNSNames: []string{dns}})
		if s.d("sn.untrustedChain") {
			leaf = selfSigned(leafKey, dns)
		}
		nonce := sha(signed)
		if s.d("sn.nonceOther") {
			nonce = sha(append([]byte{1}, signed...))
		}
		if s.d("sn.nonceShort") {
			nonce = pick(r, [][]byte{nonce[:16], {}, nonce[:31], append(append([]byte{}, nonce...), 0)})
		}
		payload, _ := json.Marshal(M{"nonce": stdB64(nonce), "timestampMs": time.Now().UnixMilli(), "apkPackageName": "com.google.android.gms",
			"apkCertificateDigestSha256": []string{stdB64(sha([]byte("apk")))}, "ctsProfileMatch": true, "basicIntegrity": true, "evaluationType": "BASIC"})
		signKey := leafKey
		if s.d("sig.otherKey") {
			signKey = genKeyPair(r, pick(r, []int{algRS256}))
			for signKey.RSA == leafKey.RSA {
				signKey = genKeyPair(r, algRS256)
			}
		}
		if s.d("sn.nonceNotBase64") {
			// the nonce member is not standard padded base64 (URL alphabet without padding, hex, a number)
			payload, _ = json.Marshal(M{"nonce": pick(r, []any{strings.TrimRight(base64.URLEncoding.EncodeToString(nonce), "=") + "-_", hx(nonce) + "z", 12345}), "timestampMs": time.Now().UnixMilli(), "ctsProfileMatch": true})
		}
		chain := [][]byte{leaf, caCert.Raw}
		if s.d("sn.leafSecond") {
			chain = [][]byte{caCert.Raw, leaf}
		}
		jws := makeJWS(signKey, payload, chain, !s.d("sn.noX5c"))
		if s.d("sn.critUnknown") {
			jws = makeJWSWith(signKey, payload, chain, map[jose.HeaderKey]any{"crit": []string{"exp"}, "exp": 1})
		}
		if s.d("sn.payloadAltered") {
			// another payload under the same signature: the nonce stays right, the signed bytes do not
			other, _ := json.Marshal(M{"nonce": stdB64(nonce), "timestampMs": time.Now().UnixMilli() + 1, "ctsProfileMatch": true, "basicIntegrity": true})
			parts := strings.Split(jws, ".")
			parts[1] = b64u(other)
			jws = strings.Join(parts, ".")
		}
		if s.d("sn.unsigned") {
			// no signature: empty third part, or alg "none"
			parts := strings.Split(jws, ".")
			if r.Bool() {
				parts[2] = ""
			} else {
				hdr, _ := json.Marshal(M{"alg": "none", "x5c": []string{stdB64(leaf), stdB64(caCert.Raw)}})
				parts[0], parts[2] = b64u(hdr), ""
			}
			jws = strings.Join(parts, ".")
		}
		if s.d("sig.bitflip") {
			bs := []byte(jws)
			bs[len(bs)-3] ^= 1
			jws = string(bs)
		}
		b.Stmt = stmtOf(cborText("ver"), cborText("14574037"), cborText("response"), cborBytes([]byte(jws)))
	}
	return b
}

func tpmutilHandle(v uint32) tpmutilH { return tpmutilH(v) }

func selfSigned(k *KeyPair, dns string) []byte {
	tmpl := &x509.Certificate{SerialNumber: bigOne(), Subject: pkix.Name{CommonName: dns}, DNSNames: []string{dns},
		NotBefore: time.Now().Add(-time.Hour), NotAfter: time.Now().Add(240 * time.Hour)}
	var signer crypto.Signer
	switch k.Kind {
	case "ec":
		signer = k.EC
	case "rsa":
		signer = k.RSA
	default:
		signer = k.Ed
	}
	der, err := x509.CreateCertificate(rand.Reader, tmpl, tmpl, k.Public(), signer)
	if err != nil {
		panic(err)
	}
	return der
}

func makeJWS(k *KeyPair, payload []byte, chain [][]byte, withX5c bool) string {
	if !withX5c {
		chain = nil
	}
	return makeJWSWith(k, payload, chain, nil)
}

// makeJWSWith: compact JWS of payload under k, x5c = chain (none when nil), further protected header members
func makeJWSWith(k *KeyPair, payload []byte, chain [][]byte, extra map[jose.HeaderKey]any) string {
	withX5c := chain != nil
	var alg jose.SignatureAlgorithm
	var key any
	switch k.Kind {
	case "rsa":
		alg, key = jose.RS256, k.RSA
	case "ec":
		alg, key = jose.ES256, k.EC
		if k.Crv == 2 {
			alg = jose.ES384
		} else if k.Crv == 3 {
			alg = jose.ES512
		}
	default:
		alg, key = jose.EdDSA, k.Ed
	}
	opts := &jose.SignerOptions{}
	if withX5c {
		var x5c []string
		for _, d := range chain {
			x5c = append(x5c, stdB64(d))
		}
		opts = opts.WithHeader("x5c", x5c)
	}
	for hk, hv := range extra {
		opts = opts.WithHeader(hk, hv)
	}
	signer, err := jose.NewSigner(jose.SigningKey{Algorithm: alg, Key: key}, opts)
	if err != nil {
		panic(err)
	}
	obj, err := signer.Sign(payload)
	if err != nil {
		panic(err)
	}
	s, err := obj.CompactSerialize()
	if err != nil {
		panic(err)
	}
	return s
}

// leafFirstOrSecond: the honest order is attestation certificate first; the deviation x5c.leafSecond presents the CA certificate first
// and the certificate whose key made the signature second (the statement then "presents" the CA key, which did not sign)
func leafFirstOrSecond(s *RegSpec, der []byte) [][]byte {
	if s.d("x5c.leafSecond") {
		return [][]byte{caCert.Raw, der}
	}
	return [][]byte{der, caCert.Raw}
}
