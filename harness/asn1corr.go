package main

import (
	"bytes"
	"encoding/asn1"
	"fmt"
	"reflect"
	"sort"
	"strconv"

	"github.com/pomerium/webauthn/android"
)

// Correspondence of the Lean encoding/asn1 model (Model/Asn1.lean, instantiated with the schemas regenerated from the
// source) with android.UnmarshalKeyDescription / KeyDescription.Marshal and with encoding/asn1 itself.

// renderASN1 writes a Go value in the positional JSON form of Driver/Asn1Codec.lean
func renderASN1(v reflect.Value) any {
	switch v.Kind() {
	case reflect.Bool:
		return v.Bool()
	case reflect.Int, reflect.Int32, reflect.Int64:
		return strconv.FormatInt(v.Int(), 10)
	case reflect.Slice:
		if v.IsNil() {
			return nil
		}
		if v.Type().Elem().Kind() == reflect.Uint8 {
			return hx(v.Bytes())
		}
		out := []any{}
		for i := 0; i < v.Len(); i++ {
			out = append(out, renderASN1(v.Index(i)))
		}
		return out
	case reflect.Struct:
		out := []any{}
		for i := 0; i < v.NumField(); i++ {
			out = append(out, renderASN1(v.Field(i)))
		}
		return out
	}
	panic("renderASN1: unsupported kind " + v.Kind().String())
}

// buildASN1 fills a Go value from the positional JSON form
func buildASN1(v reflect.Value, j any) {
	switch v.Kind() {
	case reflect.Bool:
		v.SetBool(j.(bool))
	case reflect.Int, reflect.Int32, reflect.Int64:
		i, err := strconv.ParseInt(j.(string), 10, 64)
		if err != nil {
			panic(err)
		}
		v.SetInt(i)
	case reflect.Slice:
		if j == nil {
			return
		}
		if v.Type().Elem().Kind() == reflect.Uint8 {
			b := unhx(j.(string))
			if b == nil {
				b = []byte{}
			}
			v.SetBytes(b)
			return
		}
		arr := j.([]any)
		s := reflect.MakeSlice(v.Type(), len(arr), len(arr))
		for i := range arr {
			buildASN1(s.Index(i), arr[i])
		}
		v.Set(s)
	case reflect.Struct:
		arr := j.([]any)
		for i := 0; i < v.NumField(); i++ {
			buildASN1(v.Field(i), arr[i])
		}
	default:
		panic("buildASN1: unsupported kind " + v.Kind().String())
	}
}

func kdViewOf(kd *android.KeyDescription) M {
	p := []any{}
	for _, x := range kd.TeeEnforced.Purpose {
		p = append(p, strconv.Itoa(int(x)))
	}
	return M{"challenge": hx(kd.AttestationChallenge), "swAll": bool(kd.SoftwareEnforced.AllApplications), "teeAll": bool(kd.TeeEnforced.AllApplications),
		"teeOrigin": strconv.Itoa(int(kd.TeeEnforced.Origin)), "teePurpose": p}
}

func init() {
	executors["asn1.kd.unmarshal"] = func(c *Ctx, stream string, op M) {
		der := unhx(op["der"].(string))
		model := c.Call(M{"op": "asn1.kd.unmarshal", "der": op["der"]})
		delete(model, "id")
		impl := guard(func() M {
			kd, rest, err := android.UnmarshalKeyDescription(der)
			if err != nil {
				return M{"ok": false}
			}
			return M{"ok": true, "rest": hx(rest), "val": renderASN1(reflect.ValueOf(*kd)), "view": kdViewOf(kd)}
		})
		class := "reject"
		if ok, _ := impl["ok"].(bool); ok {
			class = "accept"
		}
		if dv, ok := op["_dev"].(string); ok {
			class += "/" + dv
		}
		c.Compare(stream, op, impl, model, class, len(der) > 8)
		if want, ok := op["_expectVal"]; ok {
			// ground truth by construction: the independent encoder wrote these values under the PUBLISHED tags
			c.Compare(stream+".truth", op, M{"ok": impl["ok"], "val": impl["val"]}, M{"ok": true, "val": want}, class, true)
		}
	}
	executors["asn1.kd.marshal"] = func(c *Ctx, stream string, op M) {
		model := c.Call(M{"op": "asn1.kd.marshal", "val": op["val"]})
		delete(model, "id")
		var kd android.KeyDescription
		buildASN1(reflect.ValueOf(&kd).Elem(), normalize(op["val"]))
		var back *android.KeyDescription
		impl := guard(func() M {
			b, err := kd.Marshal()
			if err != nil {
				return M{"ok": false}
			}
			// ground truth for "Unmarshal is the inverse of Marshal": decoding what was just written gives the value back
			kd2, rest, err := android.UnmarshalKeyDescription(b)
			if err == nil && len(rest) == 0 {
				back = kd2
			}
			return M{"ok": true, "der": hx(b)}
		})
		c.Compare(stream, op, impl, model, fmt.Sprint(op["_dev"]), true)
		if ok, _ := impl["ok"].(bool); ok && op["_roundTrips"] == true {
			got := M{"ok": back != nil}
			if back != nil {
				got["val"] = renderASN1(reflect.ValueOf(*back))
			}
			c.Compare(stream+".roundtrip.truth", op, got, M{"ok": true, "val": op["_expectBack"]}, fmt.Sprint(op["_dev"]), true)
		}
	}
	executors["asn1.appleNonce"] = func(c *Ctx, stream string, op M) {
		der := unhx(op["der"].(string))
		model := c.Call(M{"op": "asn1.appleNonce", "der": op["der"]})
		delete(model, "id")
		impl := guard(func() M {
			var value struct {
				Nonce []byte `asn1:"tag:1,explicit"`
			}
			if _, err := asn1.Unmarshal(der, &value); err != nil {
				return M{"ok": false}
			}
			return M{"ok": true, "b": hx(value.Nonce)}
		})
		class := "reject"
		if ok, _ := impl["ok"].(bool); ok {
			class = "accept"
		}
		c.Compare(stream, op, impl, model, class, len(der) > 2)
	}
	executors["asn1.octetString"] = func(c *Ctx, stream string, op M) {
		der := unhx(op["der"].(string))
		model := c.Call(M{"op": "asn1.octetString", "der": op["der"]})
		delete(model, "id")
		impl := guard(func() M {
			var raw []byte
			rest, err := asn1.Unmarshal(der, &raw)
			if err != nil || len(rest) != 0 {
				return M{"ok": false}
			}
			return M{"ok": true, "b": hx(raw)}
		})
		class := "reject"
		if ok, _ := impl["ok"].(bool); ok {
			class = "accept"
		}
		c.Compare(stream, op, impl, model, class, len(der) > 1)
	}
}

// ---------- generators ----------

type alField struct {
	name string
	tag  int
	kind string // int | flag | ints | bytes | rot
}

// the published Keymaster AuthorizationList tags (Android key attestation schema), written out here independently of /repo
var publishedAuthList = []alField{
	{"Purpose", 1, "ints"}, {"Algorithm", 2, "int"}, {"KeySize", 3, "int"}, {"Digest", 5, "ints"}, {"Padding", 6, "ints"}, {"ECCurve", 10, "int"},
	{"RSAPublicExponent", 200, "int"}, {"RollbackResistance", 303, "flag"}, {"ActiveDateTime", 400, "int"}, {"OriginationExpireDateTime", 401, "int"},
	{"UsageExpireDateTime", 402, "int"}, {"NoAuthRequired", 503, "flag"}, {"UserAuthType", 504, "int"}, {"AuthTimeout", 505, "int"},
	{"AllowWhileOnBody", 506, "flag"}, {"TrustedUserPresenceRequired", 507, "flag"}, {"TrustedConfirmationRequired", 508, "flag"},
	{"UnlockedDeviceRequired", 509, "flag"}, {"AllApplications", 600, "flag"}, {"ApplicationID", 601, "flag"}, {"CreationDateTime", 701, "int"},
	{"Origin", 702, "int"}, {"RootOfTrust", 704, "rot"}, {"OSVersion", 705, "int"}, {"OSPatchLevel", 706, "int"}, {"AttestationApplicationID", 709, "bytes"},
	{"AttestationIDBrand", 710, "bytes"}, {"AttestationIDDevice", 711, "bytes"}, {"AttestationIDProduct", 712, "bytes"}, {"AttestationIDSerial", 713, "bytes"},
	{"AttestationIDIMEID", 714, "bytes"}, {"AttestationIDMEID", 715, "bytes"}, {"AttestationIDManufacturer", 716, "bytes"}, {"AttestationIDModel", 717, "bytes"},
	{"VendorPatchLevel", 718, "int"}, {"BootPatchLevel", 719, "int"},
}

func genInt(r *RNG) int64 {
	switch r.Intn(8) {
	case 0:
		return int64(r.Intn(4))
	case 1:
		return int64(r.Intn(300)) - 150
	case 2:
		return int64(r.U64())
	case 3:
		return []int64{127, 128, -128, -129, 255, 256, 32767, 32768, -32768, -32769, 1<<31 - 1, 1 << 31, -(1 << 31), 1<<63 - 1, -(1 << 63), 1 << 55, -(1 << 55), 1<<56 - 1}[r.Intn(18)]
	case 4:
		return int64(r.U64() >> uint(r.Intn(64)))
	case 5:
		return -int64(r.U64() >> uint(1+r.Intn(63)))
	}
	return int64(1 + r.Intn(100000))
}

// genAuthListVal: a random AuthorizationList value in positional JSON form; never the zero value for a present member
func genAuthListVal(r *RNG, density int) []any {
	out := make([]any, len(publishedAuthList))
	for i, f := range publishedAuthList {
		present := r.Intn(100) < density
		switch f.kind {
		case "int":
			v := int64(0)
			if present {
				for v == 0 {
					v = genInt(r)
				}
			}
			out[i] = strconv.FormatInt(v, 10)
		case "flag":
			out[i] = present
		case "ints":
			if !present {
				out[i] = nil
				continue
			}
			n := r.Intn(5)
			l := []any{}
			for k := 0; k < n; k++ {
				if r.P(3, 4) {
					l = append(l, strconv.Itoa(r.Intn(8)))
				} else {
					l = append(l, strconv.FormatInt(genInt(r), 10))
				}
			}
			out[i] = l
		case "bytes":
			if !present {
				out[i] = nil
				continue
			}
			out[i] = hx(r.Bytes(r.Intn(20)))
			if r.P(1, 6) {
				out[i] = hx(r.Bytes(120 + r.Intn(200)))
			}
		case "rot":
			if !present {
				out[i] = []any{nil, false, "0", nil}
				continue
			}
			out[i] = []any{hx(r.Bytes(r.Intn(33))), r.Bool(), strconv.Itoa(r.Intn(4)), hx(r.Bytes(r.Intn(33)))}
		}
	}
	return out
}

func genKDVal(r *RNG, density int) []any {
	return []any{strconv.FormatInt(genInt(r), 10), strconv.Itoa(r.Intn(3)), strconv.Itoa(r.Intn(200)), strconv.Itoa(r.Intn(3)),
		hx(r.Bytes(r.Intn(40))), hx(r.Bytes(r.Intn(4))), genAuthListVal(r, density), genAuthListVal(r, density)}
}

func atoi64(s any) int64 {
	v, err := strconv.ParseInt(s.(string), 10, 64)
	if err != nil {
		panic(err)
	}
	return v
}

// encodeAuthList writes a value with the independent encoder. flagStyle: "go" ([N]{01 00}) | "null" ([N]{05 00}, as published) | "empty" ([N] with no content)
// | "bool" ([N]{01 01 ff}); order: optional permutation of the members; sortSets: DER order for SET OF
func encodeAuthList(val []any, flagStyle string, order []int, sortSets bool) []byte {
	var items [][]byte
	idx := order
	if idx == nil {
		idx = make([]int, len(publishedAuthList))
		for i := range idx {
			idx[i] = i
		}
	}
	for _, i := range idx {
		f := publishedAuthList[i]
		v := val[i]
		switch f.kind {
		case "int":
			if n := atoi64(v); n != 0 {
				items = append(items, derExplicit(f.tag, derInt(n)))
			}
		case "flag":
			if v.(bool) {
				switch flagStyle {
				case "null":
					items = append(items, derExplicit(f.tag, derNull()))
				case "empty":
					items = append(items, derTLV(2, true, f.tag, nil))
				case "bool":
					items = append(items, derExplicit(f.tag, derBool(true)))
				default:
					items = append(items, goFlag(f.tag))
				}
			}
		case "ints":
			if v == nil {
				continue
			}
			var es [][]byte
			for _, x := range v.([]any) {
				es = append(es, derInt(atoi64(x)))
			}
			if sortSets {
				sort.Slice(es, func(a, b int) bool { return bytes.Compare(es[a], es[b]) < 0 })
			}
			items = append(items, derExplicit(f.tag, derSet(es...)))
		case "bytes":
			if v == nil {
				continue
			}
			items = append(items, derExplicit(f.tag, derOctets(unhx(v.(string)))))
		case "rot":
			rv := v.([]any)
			if rv[0] == nil && rv[3] == nil && rv[1] == false && rv[2] == "0" {
				continue
			}
			ub := func(x any) []byte {
				if x == nil {
					return nil
				}
				return unhx(x.(string))
			}
			items = append(items, derExplicit(f.tag, derSeq(derOctets(ub(rv[0])), derBool(rv[1].(bool)), derEnum(atoi64(rv[2])), derOctets(ub(rv[3])))))
		}
	}
	return derSeq(items...)
}

func encodeKD(val []any, flagStyle string, sortSets bool) []byte {
	return derSeq(derInt(atoi64(val[0])), derEnum(atoi64(val[1])), derInt(atoi64(val[2])), derEnum(atoi64(val[3])),
		derOctets(unhx(val[4].(string))), derOctets(unhx(val[5].(string))),
		encodeAuthList(val[6].([]any), flagStyle, nil, sortSets), encodeAuthList(val[7].([]any), flagStyle, nil, sortSets))
}

// expectedBack: what Unmarshal(Marshal(v)) must give for value v: SET OF members in the order of their encodings
func expectedBack(val []any) []any {
	out := append([]any{}, val...)
	for _, li := range []int{6, 7} {
		al := append([]any{}, val[li].([]any)...)
		for i, f := range publishedAuthList {
			if f.kind == "ints" && al[i] != nil {
				l := append([]any{}, al[i].([]any)...)
				sort.SliceStable(l, func(a, b int) bool { return bytes.Compare(derInt(atoi64(l[a])), derInt(atoi64(l[b]))) < 0 })
				al[i] = l
			}
		}
		out[li] = al
	}
	return out
}

// derMutations: structure-aware damage to a DER string (in addition to byte-level `mutate`)
func derMutations(r *RNG, der []byte) [][]byte {
	var out [][]byte
	add := func(b []byte) { out = append(out, b) }
	add(append(append([]byte{}, der...), 0x05, 0x00)) // trailing element after the outer SEQUENCE (rest)
	add(der[:len(der)-1])
	if len(der) > 4 {
		// outer length too long / too short by one
		for _, d := range []int{1, -1} {
			b := append([]byte{}, der...)
			if b[1] < 0x80 {
				b[1] = byte(int(b[1]) + d)
			} else {
				b[len(b)-1-0] ^= 0 // keep
				n := int(b[1] & 0x7f)
				if 2+n <= len(b) {
					b[1+n] = byte(int(b[1+n]) + d)
				}
			}
			add(b)
		}
	}
	// non-minimal long-form length for a short content: replace a random short length byte L (< 0x80) at a TLV header by 81 L
	for k := 0; k < 3; k++ {
		pos := tlvHeaderPositions(der)
		if len(pos) == 0 {
			break
		}
		p := pos[r.Intn(len(pos))]
		b := append([]byte{}, der[:p.lenAt]...)
		switch k {
		case 0:
			b = append(b, 0x81, der[p.lenAt])
		case 1:
			b = append(b, 0x80) // indefinite
		default:
			b = append(b, 0x82, 0x00, der[p.lenAt])
		}
		b = append(b, der[p.lenAt+1:]...)
		add(b)
	}
	return out
}

type tlvPos struct{ at, lenAt int }

// tlvHeaderPositions: positions of short-form length octets of all TLVs found by a recursive walk (constructed ones entered)
func tlvHeaderPositions(der []byte) []tlvPos {
	var out []tlvPos
	var walk func(lo, hi int)
	walk = func(lo, hi int) {
		for lo < hi {
			at := lo
			first := der[lo]
			lo++
			if first&0x1f == 0x1f {
				for lo < hi && der[lo]&0x80 != 0 {
					lo++
				}
				lo++
			}
			if lo >= hi {
				return
			}
			l := int(der[lo])
			lenAt := lo
			lo++
			if l >= 0x80 {
				n := l & 0x7f
				l = 0
				for i := 0; i < n && lo < hi; i++ {
					l = l<<8 | int(der[lo])
					lo++
				}
			} else {
				out = append(out, tlvPos{at, lenAt})
			}
			if l < 0 || lo+l > hi {
				return
			}
			if first&0x20 != 0 {
				walk(lo, lo+l)
			}
			lo += l
		}
	}
	walk(0, len(der))
	return out
}

func init() {
	register("C17",
		Stream{"asn1.kd.valid", func(c *Ctx) {
			// every optional member present / absent at several densities, set-valued members in any order, four spellings of the NULL-typed members
			n := c.N(400, 12000)
			for i := 0; i < n; i++ {
				val := genKDVal(c.R, []int{10, 30, 60, 95}[i%4])
				style := []string{"go", "null", "empty", "bool"}[(i/4)%4]
				sorted := i%3 != 0
				der := encodeKD(val, style, sorted)
				op := M{"op": "asn1.kd.unmarshal", "der": hx(der), "_dev": style}
				if style == "go" || style == "bool" {
					// both spellings read as "present"; set-valued members come back in the order they were written
					if sorted {
						op["_expectVal"] = expectedBack(val)
					} else {
						op["_expectVal"] = val
					}
				}
				executors["asn1.kd.unmarshal"](c, "asn1.kd.valid", op)
			}
		}},
		Stream{"asn1.kd.order", func(c *Ctx) {
			// members out of tag order, duplicated members, members of the other list's tags
			n := c.N(200, 6000)
			for i := 0; i < n; i++ {
				val := genKDVal(c.R, 40)
				perm := c.R.Perm(len(publishedAuthList))
				if i%2 == 0 {
					// a rotation keeps most of the order
					k := c.R.Intn(len(perm))
					for j := range perm {
						perm[j] = (j + k) % len(perm)
					}
				}
				if i%5 == 0 {
					perm = append(perm, perm[c.R.Intn(len(perm))])
				}
				tee := encodeAuthList(val[7].([]any), "go", perm, true)
				der := derSeq(derInt(atoi64(val[0])), derEnum(atoi64(val[1])), derInt(atoi64(val[2])), derEnum(atoi64(val[3])),
					derOctets(unhx(val[4].(string))), derOctets(unhx(val[5].(string))), encodeAuthList(val[6].([]any), "go", nil, true), tee)
				executors["asn1.kd.unmarshal"](c, "asn1.kd.order", M{"op": "asn1.kd.unmarshal", "der": hx(der), "_dev": "order"})
			}
		}},
		Stream{"asn1.kd.damaged", func(c *Ctx) {
			n := c.N(150, 5000)
			for i := 0; i < n; i++ {
				val := genKDVal(c.R, []int{15, 50}[i%2])
				der := encodeKD(val, []string{"go", "null"}[i%2], true)
				for _, m := range derMutations(c.R, der) {
					executors["asn1.kd.unmarshal"](c, "asn1.kd.damaged", M{"op": "asn1.kd.unmarshal", "der": hx(m), "_dev": "structure"})
				}
				for k := 0; k < 6; k++ {
					executors["asn1.kd.unmarshal"](c, "asn1.kd.damaged", M{"op": "asn1.kd.unmarshal", "der": hx(mutate(c.R, der)), "_dev": "bytes"})
				}
			}
			// every single-bit flip and every truncation of one small description
			val := genKDVal(c.R, 12)
			der := encodeKD(val, "go", true)
			for i := 0; i < len(der)*8 && i < c.N(1200, 8000); i++ {
				b := append([]byte{}, der...)
				b[i/8] ^= 1 << uint(i%8)
				executors["asn1.kd.unmarshal"](c, "asn1.kd.damaged", M{"op": "asn1.kd.unmarshal", "der": hx(b), "_dev": "bitflip"})
			}
			for i := 0; i <= len(der); i++ {
				executors["asn1.kd.unmarshal"](c, "asn1.kd.damaged", M{"op": "asn1.kd.unmarshal", "der": hx(der[:i]), "_dev": "truncate"})
			}
		}},
		Stream{"asn1.kd.handwritten", func(c *Ctx) {
			ch := bytes.Repeat([]byte{7}, 32)
			head := func(lists ...[]byte) []byte {
				return derSeq(append([][]byte{derInt(3), derEnum(1), derInt(4), derEnum(1), derOctets(ch), derOctets(nil)}, lists...)...)
			}
			long := func(tag int, content []byte, lenBytes []byte) []byte { // explicit tag with a hand-picked length encoding
				h := derTLV(2, true, tag, nil)
				h = h[:len(h)-1]
				return append(append(h, lenBytes...), content...)
			}
			cases := [][]byte{
				head(derSeq(), derSeq()),
				head(derSeq(), derSeq(derExplicit(600, derNull()))),
				head(derSeq(), derSeq(derExplicit(503, derNull()), derExplicit(702, derInt(2)))),
				head(derSeq(), derSeq(derTLV(2, true, 600, nil))),                              // zero-length explicit flag at the very end: "explicit tag has no child"
				head(derSeq(), derSeq(derTLV(2, true, 600, nil), derExplicit(702, derInt(1)))), // zero-length explicit flag followed by a member
				head(derSeq(), derSeq(derTLV(2, true, 702, nil), derExplicit(705, derInt(1)))), // zero-length explicit non-flag
				head(derSeq(), derSeq(derTLV(2, false, 702, derInt(1)))),                       // primitive explicit wrapper
				head(derSeq(), derSeq(derTLV(1, true, 702, derInt(1)))),                        // application class
				head(derSeq(), derSeq(derTLV(3, true, 702, derInt(1)))),                        // private class
				head(derSeq(), derSeq(derExplicit(702, append(derInt(1), derInt(2)...)))),      // wrapper longer than its child: the cursor continues inside
				head(derSeq(), derSeq(derExplicit(702, append(derInt(1), derExplicit(705, derInt(9))...)))),
				head(derSeq(), derSeq(derExplicit(1, derSeq(derInt(2))))),                         // SEQUENCE where SET is declared
				head(derSeq(), derSeq(derExplicit(1, derSet(derInt(2), derOctets([]byte{1}))))),   // wrong element type inside the set
				head(derSeq(), derSeq(derExplicit(1, derSet(derTLV(0, false, 2, []byte{0, 2}))))), // non-minimal integer inside the set
				head(derSeq(), derSeq(derExplicit(3, derTLV(0, false, 2, []byte{0, 0x7f})))),      // non-minimal integer
				head(derSeq(), derSeq(derExplicit(3, derTLV(0, false, 2, []byte{0xff, 0x80})))),
				head(derSeq(), derSeq(derExplicit(3, derTLV(0, false, 2, nil)))), // empty integer
				head(derSeq(), derSeq(derExplicit(3, derTLV(0, false, 2, bytes.Repeat([]byte{1}, 9))))),
				head(derSeq(), derSeq(derExplicit(3, derTLV(0, false, 2, bytes.Repeat([]byte{0x81}, 8))))),
				head(derSeq(), derSeq(derExplicit(704, derSeq(derOctets(nil), []byte{1, 1, 1}, derEnum(0), derOctets(nil))))),          // BOOLEAN 01
				head(derSeq(), derSeq(derExplicit(704, derSeq(derOctets(nil), derBool(true), derEnum(1<<31), derOctets(nil))))),        // enum beyond int32
				head(derSeq(), derSeq(derExplicit(704, derSeq(derOctets(nil), derBool(true), derEnum(-5))))),                           // missing last member
				head(derSeq(), derSeq(derExplicit(704, derSeq(derOctets(nil), derBool(true), derEnum(2), derOctets(nil), derInt(1))))), // extra member ignored
				head(derSeq(), derSeq(long(702, derInt(1), []byte{0x81, 0x03}))),                                                       // non-minimal length
				head(derSeq(), derSeq(long(702, derInt(1), []byte{0x80}))),                                                             // indefinite
				head(derSeq(), derSeq(long(702, derInt(1), []byte{0x82, 0x00, 0x03}))),                                                 // leading zero in length
				head(derSeq(), derSeq(append([]byte{0xbf, 0x80, 0x85, 0x3e, 0x03}, derInt(1)...))),                                     // non-minimal tag number (leading 0x80)
				head(derSeq(), derSeq(append([]byte{0xbf, 0x1e, 0x03}, derInt(1)...))),                                                 // high-tag form for a tag < 31
				head(derSeq(), derSeq(append([]byte{0xbf, 0x8f, 0xff, 0xff, 0xff, 0x7f, 0x03}, derInt(1)...))),                         // tag beyond int32
				head(derSeq(), derSeq(append([]byte{0xbf, 0x87, 0xff, 0xff, 0xff, 0x7f, 0x03}, derInt(1)...))),                         // tag = MaxInt32
				head(derSeq()),                     // TeeEnforced missing
				head(),                             // both lists missing
				head(derSeq(), derSet()),           // SET where a SEQUENCE is declared
				head(derSeq(), derSeq(), derSeq()), // trailing member in the outer SEQUENCE: ignored
				append(head(derSeq(), derSeq()), 1, 2, 3),
				{}, {0x30}, {0x30, 0x00}, {0x30, 0x80}, {0x31, 0x00}, {0x10, 0x00}, {0x70, 0x00}, {0xb0, 0x00},
				derSeq(derEnum(3), derEnum(1), derInt(4), derEnum(1), derOctets(ch), derOctets(nil), derSeq(), derSeq()), // ENUMERATED where INTEGER is declared
				derSeq(derInt(3), derInt(1), derInt(4), derEnum(1), derOctets(ch), derOctets(nil), derSeq(), derSeq()),
				derSeq(derInt(3), derEnum(1), derInt(4), derEnum(1), derTLV(0, true, 4, ch), derOctets(nil), derSeq(), derSeq()), // constructed OCTET STRING
			}
			for i, der := range cases {
				executors["asn1.kd.unmarshal"](c, "asn1.kd.handwritten", M{"op": "asn1.kd.unmarshal", "der": hx(der), "_dev": fmt.Sprintf("case%d", i)})
			}
		}},
		Stream{"asn1.kd.random", func(c *Ctx) {
			n := c.N(300, 20000)
			for i := 0; i < n; i++ {
				b := c.R.Bytes(c.R.Intn(40))
				if i%2 == 0 && len(b) > 2 {
					b[0] = 0x30
					b[1] = byte(len(b) - 2)
				}
				executors["asn1.kd.unmarshal"](c, "asn1.kd.random", M{"op": "asn1.kd.unmarshal", "der": hx(b), "_dev": "random"})
			}
		}},
		Stream{"asn1.kd.marshal", func(c *Ctx) {
			// Marshal of arbitrary values (nil / empty slices, zero / non-zero members, unsorted sets, negative and 64-bit integers), and
			// ground truth for "Unmarshal is the inverse of Marshal" on values without nil-vs-empty ambiguity
			n := c.N(300, 10000)
			for i := 0; i < n; i++ {
				val := genKDVal(c.R, []int{10, 40, 90}[i%3])
				op := M{"op": "asn1.kd.marshal", "val": val, "_dev": "generated", "_roundTrips": true, "_expectBack": expectedBack(val)}
				executors["asn1.kd.marshal"](c, "asn1.kd.marshal", op)
			}
			// corner values: empty-but-present slices, a RootOfTrust that is zero except for one member, enum beyond int32
			for i := 0; i < c.N(60, 2000); i++ {
				val := genKDVal(c.R, 20)
				al := val[7].([]any)
				switch i % 6 {
				case 0:
					al[0] = []any{} // Purpose present and empty
				case 1:
					al[25] = "" // present empty byte string
				case 2:
					al[22] = []any{nil, true, "0", nil}
				case 3:
					al[22] = []any{"", false, "0", nil}
				case 4:
					al[22] = []any{nil, false, "3", nil}
				case 5:
					val[1] = strconv.FormatInt(int64(1)<<40, 10) // Enumerated is an int: Marshal writes it, Unmarshal refuses it
				}
				executors["asn1.kd.marshal"](c, "asn1.kd.marshal", M{"op": "asn1.kd.marshal", "val": val, "_dev": fmt.Sprintf("corner%d", i%6)})
			}
		}},
		Stream{"asn1.small", func(c *Ctx) {
			n := c.N(300, 20000)
			for i := 0; i < n; i++ {
				body := c.R.Bytes(c.R.Intn(40))
				var ders [][]byte
				ders = append(ders, derOctets(body), derSeq(derExplicit(1, derOctets(body))), derSeq(derExplicit(1, derOctets(body)), derInt(5)),
					append(derOctets(body), 0), derSeq(derExplicit(2, derOctets(body))), derSeq(derOctets(body)), derSeq(derTLV(2, true, 1, nil)),
					derSeq(derExplicit(1, derTLV(0, true, 4, body))), derTLV(0, true, 4, body), derTLV(2, false, 4, body),
					mutate(c.R, derOctets(body)), mutate(c.R, derSeq(derExplicit(1, derOctets(body)))), c.R.Bytes(c.R.Intn(12)))
				if len(body) == 16 || i%7 == 0 {
					ders = append(ders, derOctets(c.R.Bytes(16)))
				}
				for _, d := range ders {
					executors["asn1.octetString"](c, "asn1.small.octetString", M{"op": "asn1.octetString", "der": hx(d)})
					executors["asn1.appleNonce"](c, "asn1.small.appleNonce", M{"op": "asn1.appleNonce", "der": hx(d)})
				}
			}
		}},
	)
}
