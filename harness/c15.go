package main

import (
	"crypto"
	"crypto/rand"
	"crypto/x509"
	"crypto/x509/pkix"
	"encoding/json"
	"encoding/pem"
	"fmt"
	"math/big"
	"os"
	"strings"
	"time"

	"github.com/pomerium/webauthn/fido"
)

type pki struct {
	rootKey, interKey, leafKey *KeyPair
	root, inter, leaf          []byte
	pool                       *x509.CertPool
}

func signerOf(k *KeyPair) crypto.Signer {
	switch k.Kind {
	case "ec":
		return k.EC
	case "rsa":
		return k.RSA
	}
	return k.Ed
}

func issue(r *RNG, subject string, pub crypto.PublicKey, parent *x509.Certificate, parentKey *KeyPair, isCA bool, notAfter time.Time, self bool) []byte {
	return issueWith(r, subject, pub, parent, parentKey, isCA, notAfter, self, nil)
}

// issueWith: as issue, with a last word on the template (CA constraints: basic constraints, path length, key usage, extended key usage)
func issueWith(r *RNG, subject string, pub crypto.PublicKey, parent *x509.Certificate, parentKey *KeyPair, isCA bool, notAfter time.Time, self bool, mod func(*x509.Certificate)) []byte {
	tmpl := &x509.Certificate{SerialNumber: big.NewInt(int64(r.U64() >> 1)), Subject: pkix.Name{CommonName: subject},
		NotBefore: time.Now().Add(-48 * time.Hour), NotAfter: notAfter, IsCA: isCA, BasicConstraintsValid: true}
	if !isCA && r.P(1, 3) {
		// a signing certificate issued a moment ago (validity is a matter of the time of the CALL, not of when the process started)
		tmpl.NotBefore = time.Now().Add(-300 * time.Millisecond)
	}
	if isCA {
		tmpl.KeyUsage = x509.KeyUsageCertSign
	} else {
		tmpl.KeyUsage = x509.KeyUsageDigitalSignature
	}
	if mod != nil {
		mod(tmpl)
	}
	p := parent
	if self {
		p = tmpl
	}
	der, err := x509.CreateCertificate(rand.Reader, tmpl, p, pub, signerOf(parentKey))
	if err != nil {
		panic(err)
	}
	return der
}

// The embedded default root (GlobalSign) cannot sign generated BLOBs. fido.GlobalSignRootCAPEM is an exported variable read on every call:
// the harness replaces it once, at start, by a root of its own, so that "no option given" and "the configured pool is empty / nil" can be
// told apart with BLOBs that chain to THE DEFAULT root.
var defaultRootKey *KeyPair
var defaultRootDER []byte

func init() {
	r := NewRNG(0xd0f0)
	defaultRootKey = genKeyPairOnCurve(r, algES256, 1, false)
	defaultRootDER = issue(r, "harness default blob root", defaultRootKey.Public(), nil, defaultRootKey, true, time.Now().Add(2000*time.Hour), true)
	fido.GlobalSignRootCAPEM = pem.EncodeToMemory(&pem.Block{Type: "CERTIFICATE", Bytes: defaultRootDER})
}

// underDefaultRoot re-issues the hierarchy's first certificate below the root under the harness default root
func (p *pki) underDefaultRoot(r *RNG, depth int) {
	rootCert, _ := x509.ParseCertificate(defaultRootDER)
	far := time.Now().Add(1000 * time.Hour)
	p.rootKey, p.root = defaultRootKey, defaultRootDER
	if depth <= 2 {
		p.inter = nil
		p.leaf = issue(r, "mds leaf", p.leafKey.Public(), rootCert, defaultRootKey, false, far, false)
		return
	}
	p.inter = issue(r, "verif blob intermediate", p.interKey.Public(), rootCert, defaultRootKey, true, far, false)
	interCert, _ := x509.ParseCertificate(p.inter)
	p.leaf = issue(r, "mds leaf", p.leafKey.Public(), interCert, p.interKey, false, far, false)
}

func newPKI(r *RNG, depth int, leafExpired bool) *pki {
	kinds := []int{algES256, algRS256, algES384, algES512, algEdDSA}
	mk := func() *KeyPair {
		a := pick(r, kinds)
		if kindOfAlg(a) == "ec" {
			return genKeyPairOnCurve(r, a, map[int]int{algES256: 1, algES384: 2, algES512: 3}[a], false)
		}
		return genKeyPair(r, a)
	}
	p := &pki{rootKey: mk(), interKey: mk(), leafKey: mk()}
	// RSA keys come from a small embedded pool: the three keys of one hierarchy must be different keys
	for sameKey(p.interKey, p.rootKey) {
		p.interKey = mk()
	}
	for sameKey(p.leafKey, p.rootKey) || sameKey(p.leafKey, p.interKey) {
		p.leafKey = mk()
	}
	far := time.Now().Add(1000 * time.Hour)
	p.root = issue(r, "verif blob root", p.rootKey.Public(), nil, p.rootKey, true, far, true)
	rootCert, _ := x509.ParseCertificate(p.root)
	leafEnd := far
	if leafExpired {
		leafEnd = time.Now().Add(-time.Hour)
	}
	switch depth {
	case 1:
		// the leaf is itself the trusted certificate
		p.leaf = issue(r, "mds leaf", p.leafKey.Public(), nil, p.leafKey, false, leafEnd, true)
		p.root = p.leaf
	case 2:
		p.leaf = issue(r, "mds leaf", p.leafKey.Public(), rootCert, p.rootKey, false, leafEnd, false)
	default:
		p.inter = issue(r, "verif blob intermediate", p.interKey.Public(), rootCert, p.rootKey, true, far, false)
		interCert, _ := x509.ParseCertificate(p.inter)
		p.leaf = issue(r, "mds leaf", p.leafKey.Public(), interCert, p.interKey, false, leafEnd, false)
	}
	p.pool = x509.NewCertPool()
	rc, _ := x509.ParseCertificate(p.root)
	p.pool.AddCert(rc)
	return p
}

// constrain re-issues the hierarchy as root -> intermediate -> leaf with one CA constraint violated (or, for "leaf.eku*", a leaf whose
// extended key usage is restricted); the keys stay the same
func (p *pki) constrain(r *RNG, dv string) {
	far := time.Now().Add(1000 * time.Hour)
	rootMod, interMod, leafMod := func(*x509.Certificate) {}, func(*x509.Certificate) {}, func(*x509.Certificate) {}
	interCA, interEnd := true, far
	switch dv {
	case "ca.intermediateNotCA":
		interCA = false
	case "ca.intermediateNoBasicConstraints":
		interMod = func(t *x509.Certificate) {
			t.IsCA, t.BasicConstraintsValid, t.KeyUsage = false, false, x509.KeyUsageCertSign
		}
	case "ca.pathLenExceeded":
		rootMod = func(t *x509.Certificate) { t.MaxPathLen, t.MaxPathLenZero = 0, true }
	case "ca.keyUsageNoCertSign":
		interMod = func(t *x509.Certificate) { t.KeyUsage = x509.KeyUsageDigitalSignature }
	case "ca.ekuConstrained":
		interMod = func(t *x509.Certificate) { t.ExtKeyUsage = []x509.ExtKeyUsage{x509.ExtKeyUsageEmailProtection} }
	case "ca.expired":
		interEnd = time.Now().Add(-time.Hour)
	case "ca.justExpired":
		// validity ended seconds ago / begins in some seconds: there is no tolerance in "validity period"
		interEnd = time.Now().Add(-time.Duration(10+r.Intn(40)) * time.Second)
	case "leaf.justExpired":
		leafMod = func(t *x509.Certificate) { t.NotAfter = time.Now().Add(-time.Duration(10+r.Intn(40)) * time.Second) }
	case "leaf.notYetValidSoon":
		leafMod = func(t *x509.Certificate) { t.NotBefore = time.Now().Add(time.Duration(20+r.Intn(30)) * time.Second) }
	case "ca.notYetValid":
		interMod = func(t *x509.Certificate) { t.NotBefore = time.Now().Add(24 * time.Hour) }
	case "leaf.ekuOther":
		leafMod = func(t *x509.Certificate) {
			t.ExtKeyUsage = []x509.ExtKeyUsage{x509.ExtKeyUsageEmailProtection, x509.ExtKeyUsageCodeSigning}
		}
	case "leaf.ekuServerAuth":
		leafMod = func(t *x509.Certificate) { t.ExtKeyUsage = []x509.ExtKeyUsage{x509.ExtKeyUsageServerAuth} }
	case "ca.ekuAny":
		interMod = func(t *x509.Certificate) { t.ExtKeyUsage = []x509.ExtKeyUsage{x509.ExtKeyUsageAny} }
	}
	p.root = issueWith(r, "verif blob root", p.rootKey.Public(), nil, p.rootKey, true, far, true, rootMod)
	rootCert, _ := x509.ParseCertificate(p.root)
	p.inter = issueWith(r, "verif blob intermediate", p.interKey.Public(), rootCert, p.rootKey, interCA, interEnd, false, interMod)
	interCert, _ := x509.ParseCertificate(p.inter)
	p.leaf = issueWith(r, "mds leaf", p.leafKey.Public(), interCert, p.interKey, false, far, false, leafMod)
	p.pool = x509.NewCertPool()
	p.pool.AddCert(rootCert)
}

func (p *pki) chain() [][]byte {
	c := [][]byte{p.leaf}
	if p.inter != nil {
		c = append(c, p.inter)
	}
	return c
}

func init() {
	executors["blob"] = func(c *Ctx, stream string, op M) {
		// pools travel out of band (they are Go objects): op["_pools"] holds PEM-less DER roots per custom pool
		var pools []*x509.CertPool
		if ps, ok := op["_poolRoots"].([]any); ok {
			for _, p := range ps {
				pool := x509.NewCertPool()
				for _, d := range hexList(p) {
					if cert, err := x509.ParseCertificate(d); err == nil {
						pool.AddCert(cert)
					}
				}
				pools = append(pools, pool)
			}
		}
		if ps, ok := op["_poolRoots"].([][]string); ok {
			for _, p := range ps {
				pool := x509.NewCertPool()
				for _, h := range p {
					if cert, err := x509.ParseCertificate(unhx(h)); err == nil {
						pool.AddCert(cert)
					}
				}
				pools = append(pools, pool)
			}
		}
		c.D.Pools = pools
		model := c.Call(op)
		delete(model, "id")
		impl := guard(func() M {
			var opts []fido.UnmarshalOption
			var list []any
			switch l := op["pools"].(type) {
			case []any:
				list = l
			case []string:
				for _, s := range l {
					list = append(list, s)
				}
			}
			for _, p := range list {
				switch v := p.(type) {
				case string:
					if v == "nil" {
						opts = append(opts, fido.WithRootCA(nil))
					} else {
						dp := x509.NewCertPool()
						dp.AppendCertsFromPEM(fido.GlobalSignRootCAPEM)
						opts = append(opts, fido.WithRootCA(dp))
					}
				default:
					opts = append(opts, fido.WithRootCA(pools[int(num(v))]))
				}
			}
			payload, err := fido.UnmarshalMetadataBLOBPayload(string(unhx(op["raw"].(string))), opts...)
			if err != nil || payload == nil {
				return M{"ok": false}
			}
			b, _ := json.Marshal(payload)
			return M{"ok": true, "payload": hx(b)}
		})
		class := "reject"
		if ok, _ := model["ok"].(bool); ok {
			class = "accept"
		}
		if dv, ok := op["_dev"].(string); ok {
			class += "/" + dv
		}
		c.Compare(stream, op, impl, model, class, true)
		if ex, ok := op["_expect"].(bool); ok {
			c.Compare(stream+".truth", op, M{"ok": impl["ok"]}, M{"ok": ex}, class, true)
		}
	}
	executors["aaguid"] = func(c *Ctx, stream string, op M) {
		if a, ok := op["a"].(string); ok {
			m := c.Call(M{"op": "aaguid.string", "a": a})
			var g fido.AAGUID
			copy(g[:], unhx(a))
			implS := g.String()
			c.Compare(stream, M{"op": "aaguid.string", "a": a}, M{"s": hx([]byte(implS))}, M{"s": m["s"]}, "string", true)
			// JSON round trip on the implementation
			jb, _ := json.Marshal(g)
			var back fido.AAGUID
			err := json.Unmarshal(jb, &back)
			c.Compare(stream+".json", M{"op": "aaguid.json", "a": a}, M{"ok": err == nil, "a": hx(back[:])}, M{"ok": true, "a": a}, "json-roundtrip", true)
			return
		}
		s := op["s"].(string)
		m := c.Call(M{"op": "aaguid.parse", "s": s})
		delete(m, "id")
		g, err := fido.ParseAAGUID(string(unhx(s)))
		impl := M{"ok": err == nil}
		if err == nil {
			impl["a"] = hx(g[:])
		}
		class := "parse-reject"
		if ok, _ := m["ok"].(bool); ok {
			class = "parse-accept"
		}
		c.Compare(stream, M{"op": "aaguid.parse", "s": s}, impl, m, class, true)
	}
	blobPayload := func(r *RNG) []byte {
		ag := fido.AAGUID{}
		copy(ag[:], r.Bytes(16))
		p := fido.MetadataBLOBPayload{LegalHeader: "legal", No: 1 + r.Intn(100), NextUpdate: "2030-01-01",
			Entries: []fido.MetadataBLOBPayloadEntry{{AAGUID: ag, TimeOfLastStatusChange: "2024-01-01", MetadataStatement: fido.MetadataStatement{AAGUID: ag, Description: "verif authenticator"}}}}
		b, _ := json.Marshal(p)
		if r.P(1, 2) {
			// written by hand, as the metadata service writes it: numbers over the whole range of their IDL types (authenticatorVersion is an
			// unsigned long: vendors pack firmware versions into it), further members the structure does not know
			av := pick(r, []uint64{0, 2, 65535, 65536, 328707, 1 << 24, 1<<31 - 1, 1 << 31, 1<<32 - 1})
			no := pick(r, []uint64{1, 65536, 1<<31 - 1, 1 << 31, 1<<32 - 1})
			b = []byte(fmt.Sprintf(`{"legalHeader":"legal","no":%d,"nextUpdate":"2030-01-01","entries":[{"aaguid":%q,"metadataStatement":{"legalHeader":"l","aaguid":%q,`+
				`"description":"verif authenticator","authenticatorVersion":%d,"protocolFamily":"fido2","schema":3,"upv":[{"major":1,"minor":%d}],"authenticationAlgorithms":["secp256r1_ecdsa_sha256_raw"],`+
				`"publicKeyAlgAndEncodings":["cose"],"attestationTypes":["basic_full"],"cryptoStrength":%d,"futureMember":{"a":[1,2,3]}},"statusReports":[{"status":"FIDO_CERTIFIED_L1","effectiveDate":"2024-01-01","certificationPolicyVersion":"1.3.7"}],`+
				`"timeOfLastStatusChange":"2024-01-01"}]}`, no, ag.String(), ag.String(), av, pick(r, []int{0, 1, 255, 65535}), pick(r, []int{0, 128, 65535, 70000})))
		}
		return b
	}
	// a compact JWS assembled by hand: the protected header's JSON text may be laid out in any way (the signature is over its base64url form)
	handJWS := func(r *RNG, k *KeyPair, payload []byte, chain [][]byte) string {
		x5c := []string{}
		for _, d := range chain {
			x5c = append(x5c, stdB64(d))
		}
		alg := jwsAlgOf(r, k)
		x5cText, _ := json.Marshal(x5c)
		hdr := pick(r, []string{
			fmt.Sprintf("{ \"alg\": %q, \"x5c\": %s }", alg, x5cText),
			fmt.Sprintf("{\n  \"alg\": %q,\n  \"x5c\": %s\n}", alg, x5cText),
			fmt.Sprintf(" {\"x5c\":%s,\"typ\":\"JWT\",\"alg\":%q}\n", x5cText, alg),
			fmt.Sprintf("\t{\"alg\":%q ,\"x5c\" :%s}", alg, x5cText)})
		input := b64u([]byte(hdr)) + "." + b64u(payload)
		return input + "." + b64u(jwsSign(k, alg, []byte(input)))
	}
	_ = handJWS
	register("C15",
		Stream{"blob.deviations", func(c *Ctx) {
			r := c.R
			devs := []string{"", "", "payload.altered", "signature.altered", "header.altered", "root.other", "leaf.expired", "chain.reordered", "chain.missing",
				"signedByNonLeaf", "pool.default", "pool.empty", "pool.nil", "pool.lastWins", "pool.lastWinsBad", "garbage",
				"default.none", "default.emptyPool", "default.nilPool", "default.otherPool", "default.emptyThenNothing",
				"ca.intermediateNotCA", "ca.intermediateNoBasicConstraints", "ca.pathLenExceeded", "ca.keyUsageNoCertSign", "ca.ekuConstrained", "ca.expired",
				"ca.notYetValid", "leaf.ekuOther", "leaf.ekuServerAuth", "ca.ekuAny", "ca.justExpired", "leaf.justExpired", "leaf.notYetValidSoon"}
			n := c.N(6, 200)
			for i := 0; i < n; i++ {
				for _, dv := range devs {
					depth := 1 + r.Intn(3)
					p := newPKI(r, depth, dv == "leaf.expired")
					if strings.HasPrefix(dv, "default.") {
						if depth == 1 {
							depth = 2
						}
						p.underDefaultRoot(r, depth)
					}
					if strings.HasPrefix(dv, "ca.") || strings.HasPrefix(dv, "leaf.eku") || dv == "leaf.justExpired" || dv == "leaf.notYetValidSoon" {
						depth = 3
						p.constrain(r, dv)
					}
					signKey := p.leafKey
					if dv == "signedByNonLeaf" {
						signKey = p.rootKey
						if depth == 1 {
							signKey = genKeyPair(r, algRS256)
							for sameKey(signKey, p.leafKey) {
								signKey = genKeyPair(r, algRS256)
							}
						}
					}
					chain := p.chain()
					if dv == "chain.reordered" {
						if len(chain) < 2 {
							chain = [][]byte{p.root, p.leaf}
							if depth == 1 {
								continue
							}
						} else {
							chain = [][]byte{chain[1], chain[0]}
						}
					}
					jws := makeJWS(signKey, blobPayload(r), chain, dv != "chain.missing")
					if (dv == "" || strings.HasPrefix(dv, "default.") || strings.HasPrefix(dv, "pool.")) && r.Bool() {
						jws = handJWS(r, signKey, blobPayload(r), chain)
					}
					parts := strings.Split(jws, ".")
					switch dv {
					case "payload.altered":
						parts[1] = b64u(blobPayload(r))
					case "signature.altered":
						sb := []byte(parts[2])
						sb[r.Intn(len(sb)-2)] ^= 1
						parts[2] = string(sb)
					case "header.altered":
						parts[0] = b64u([]byte(`{"alg":"none"}`))
					case "garbage":
						parts = []string{pick(r, []string{"", "a.b", "....", "e30.e30.", "{}"})}
					}
					raw := strings.Join(parts, ".")
					poolRoots := [][]string{{hx(p.root)}}
					pools := []any{0}
					expect := dv == "" || dv == "leaf.ekuServerAuth" || dv == "ca.ekuAny"
					switch dv {
					case "default.none":
						// no option: the chain ends in the default root
						pools, poolRoots, expect = []any{}, [][]string{}, true
					case "default.emptyPool":
						pools, poolRoots = []any{0}, [][]string{{}}
					case "default.nilPool":
						pools, poolRoots = []any{"nil"}, [][]string{}
					case "default.otherPool":
						other := newPKI(r, 2, false)
						pools, poolRoots = []any{0}, [][]string{{hx(other.root)}}
					case "default.emptyThenNothing":
						// an explicit default pool first, an empty pool last: the last option wins
						pools, poolRoots = []any{"default", 0}, [][]string{{}}
					case "root.other":
						other := newPKI(r, 2, false)
						for sameKey(other.rootKey, p.rootKey) || sameKey(other.rootKey, p.interKey) || sameKey(other.rootKey, p.leafKey) {
							other = newPKI(r, 2, false)
						}
						poolRoots = [][]string{{hx(other.root)}}
					case "pool.default":
						pools = []any{}
					case "pool.empty":
						poolRoots = [][]string{{}}
					case "pool.nil":
						pools = []any{"nil"}
					case "pool.lastWins":
						other := newPKI(r, 2, false)
						for sameKey(other.rootKey, p.rootKey) {
							other = newPKI(r, 2, false)
						}
						poolRoots = [][]string{{hx(other.root)}, {hx(p.root)}}
						pools = []any{0, "default", 1}
						expect = true
					case "pool.lastWinsBad":
						other := newPKI(r, 2, false)
						for sameKey(other.rootKey, p.rootKey) || sameKey(other.rootKey, p.interKey) || sameKey(other.rootKey, p.leafKey) {
							other = newPKI(r, 2, false)
						}
						poolRoots = [][]string{{hx(p.root)}, {hx(other.root)}}
						pools = []any{0, 1}
					}
					op := M{"op": "blob", "raw": hx([]byte(raw)), "pools": pools, "_poolRoots": poolRoots, "_dev": fmt.Sprintf("%s/depth%d", dv, depth), "_expect": expect}
					if dv == "leaf.ekuOther" {
						delete(op, "_expect") // what a leaf's extended key usage must allow is not part of the property: model and code are compared, no truth is asserted
					}
					executors["blob"](c, "blob.deviations", op)
				}
			}
		}},
		Stream{"blob.mutated", func(c *Ctx) {
			r := c.R
			n := c.N(150, 6000)
			for i := 0; i < n; i++ {
				p := newPKI(r, 1+r.Intn(3), false)
				jws := makeJWS(p.leafKey, blobPayload(r), p.chain(), true)
				parts := strings.Split(jws, ".")
				k := r.Intn(3)
				parts[k] = string(mutate(r, []byte(parts[k])))
				op := M{"op": "blob", "raw": hx([]byte(strings.Join(parts, "."))), "pools": []any{0}, "_poolRoots": [][]string{{hx(p.root)}}, "_dev": fmt.Sprintf("mutated-segment%d", k)}
				executors["blob"](c, "blob.mutated", op)
			}
		}},
		Stream{"blob.recorded", func(c *Ctx) {
			// the recorded sample BLOB of the repository's own test data, if present (default pool; expired chains are rejected by both sides)
			if b, err := os.ReadFile("/repo/fido/testdata/spec-blob.jwt"); err == nil {
				roots := []string{}
				if pemBytes, err := os.ReadFile("/repo/fido/testdata/spec-root-ca.pem"); err == nil {
					for blk, rest := pem.Decode(pemBytes); blk != nil; blk, rest = pem.Decode(rest) {
						roots = append(roots, hx(blk.Bytes))
					}
				}
				raw := strings.TrimSpace(string(b))
				executors["blob"](c, "blob.recorded", M{"op": "blob", "raw": hx([]byte(raw)), "pools": []any{0}, "_poolRoots": [][]string{roots}, "_dev": "recorded/custom-root"})
				executors["blob"](c, "blob.recorded", M{"op": "blob", "raw": hx([]byte(raw)), "pools": []any{}, "_poolRoots": [][]string{}, "_dev": "recorded/default-root"})
			}
		}},
		Stream{"aaguid", func(c *Ctx) {
			r := c.R
			n := c.N(2000, 200000)
			edge := [][]byte{make([]byte, 16), {0xff, 0xff, 0xff, 0xff, 0xff, 0xff, 0xff, 0xff, 0xff, 0xff, 0xff, 0xff, 0xff, 0xff, 0xff, 0xff},
				{0, 0, 0, 0, 0, 0, 0, 0, 0, 0, 0, 0, 0, 0, 0, 1}, {0x80, 0, 0, 0, 0, 0, 0, 0, 0, 0, 0, 0, 0, 0, 0, 0}, {0x0a, 0xbc, 0xde, 0xf0, 0x12, 0x34, 0x56, 0x78, 0x9a, 0xbc, 0xde, 0xf0, 0x0f, 0xf0, 0xa0, 0x0a}}
			for i := 0; i < n; i++ {
				a := r.Bytes(16)
				if i < len(edge) {
					a = edge[i]
				}
				executors["aaguid"](c, "aaguid.string", M{"a": hx(a)})
				var g fido.AAGUID
				copy(g[:], a)
				s := g.String()
				var variants []string
				switch i % 6 {
				case 0:
					variants = []string{s, strings.ToUpper(s), "urn:uuid:" + s, "URN:UUID:" + s, "{" + s + "}", strings.ReplaceAll(s, "-", "")}
				case 1:
					variants = []string{s[:35], s + "0", strings.Replace(s, "-", "_", 1), "x" + s[1:], "urn:uuie:" + s, "[" + s + ")", s[:8] + s[9:] + "-"}
				default:
					variants = []string{string(mutate(r, []byte(s)))}
				}
				for _, v := range variants {
					executors["aaguid"](c, "aaguid.parse", M{"s": hx([]byte(v))})
				}
			}
		}},
	)
}

// sameKey: both RSA and the same key of the embedded pool (EC keys are always freshly generated)
func sameKey(a, b *KeyPair) bool {
	return a != nil && b != nil && a.Kind == "rsa" && b.Kind == "rsa" && a.RSA == b.RSA
}
