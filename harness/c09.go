package main

import (
	"context"
	"crypto/ed25519"
	"crypto/x509"
	"encoding/json"
	"fmt"
	"math/big"
	"runtime"
	"time"

	"github.com/pomerium/webauthn"
	"github.com/pomerium/webauthn/android"
	"github.com/pomerium/webauthn/cose"
	"github.com/pomerium/webauthn/fido"
	"github.com/pomerium/webauthn/tpm"
)

// C09: every entry point returns (a value or an error) — no panic, no hang, bounded memory.
// The model side of the comparison is "returns": the Lean model is total (every definition is structurally or fuel
// recursive, audited) and fuel is never the reason for a reject (C09.cbor_fuel_sufficient).

type entryPoint struct {
	name string
	run  func(b []byte)
}

func drainKey(k cose.PublicKey) {
	if k == nil {
		return
	}
	_ = k.Algorithm()
	_ = k.Type()
	_ = k.CryptoPublicKey()
	_, _ = k.Marshal()
	_ = k.Verify([]byte("data"), []byte("sig"))
	_ = k.Verify(nil, nil)
}

var entryPoints = []entryPoint{
	{"webauthn.UnmarshalAuthenticatorData", func(b []byte) {
		d, _, err := webauthn.UnmarshalAuthenticatorData(b)
		if err == nil {
			_, _ = d.Marshal()
			_ = d.Flags.UserPresent()
			if d.AttestedCredentialData != nil {
				_, _ = d.AttestedCredentialData.Marshal()
			}
		}
	}},
	{"webauthn.UnmarshalAttestedCredentialData", func(b []byte) {
		d, _, err := webauthn.UnmarshalAttestedCredentialData(b)
		if err == nil {
			_, _ = d.Marshal()
		}
	}},
	{"webauthn.UnmarshalAttestationObject+Verify", func(b []byte) {
		o, _, err := webauthn.UnmarshalAttestationObject(b)
		if err == nil {
			_, _ = o.UnmarshalAuthenticatorData()
			_ = o.Statement.GetAlgorithm()
			_ = o.Statement.GetSignature()
			_, _ = o.Statement.UnmarshalCertificates()
			_, _ = o.Statement.UnmarshalCertInfo()
			_, _ = o.Statement.UnmarshalPubArea()
			var h webauthn.ClientDataJSONHash
			_, _ = webauthn.VerifyAttestationStatement(o, h)
			_, _ = webauthn.VerifyPackedAttestationStatement(o, h)
			_, _ = webauthn.VerifyFIDOU2FAttestationStatement(o, h)
			_, _ = webauthn.VerifyTPMAttestationStatement(o, h)
			_, _ = webauthn.VerifyAndroidKeyAttestationStatement(o, h)
			_, _ = webauthn.VerifyAndroidSafetyNetAttestationStatement(o, h)
			_, _ = webauthn.VerifyAppleAttestationStatement(o, h)
			_, _ = webauthn.VerifyNoneAttestationStatement(o, h)
		}
	}},
	{"cose.UnmarshalPublicKey", func(b []byte) {
		// (on error the interface value returned may hold a typed nil pointer: it is not a value to call methods on)
		if k, _, err := cose.UnmarshalPublicKey(b); err == nil {
			drainKey(k)
		}
	}},
	{"cose.UnmarshalECDSAPublicKey", func(b []byte) {
		k, _, err := cose.UnmarshalECDSAPublicKey(b)
		if err == nil {
			drainKey(k)
			_ = k.RawX962ECC()
		}
	}},
	{"cose.UnmarshalEdDSAPublicKey", func(b []byte) {
		k, _, err := cose.UnmarshalEdDSAPublicKey(b)
		if err == nil {
			drainKey(k)
		}
	}},
	{"cose.UnmarshalRSAPublicKey", func(b []byte) {
		k, _, err := cose.UnmarshalRSAPublicKey(b)
		if err == nil {
			drainKey(k)
		}
	}},
	{"tpm.UnmarshalAttestationData", func(b []byte) {
		d, err := tpm.UnmarshalAttestationData(b)
		if err == nil {
			_, _ = d.Encode()
		}
	}},
	{"tpm.UnmarshalPublic", func(b []byte) {
		p, err := tpm.UnmarshalPublic(b)
		if err == nil {
			_, _ = p.Encode()
			_, _ = p.Key()
			_, _ = p.Name()
		}
	}},
	{"tpm.UnmarshalVendorID", func(b []byte) { v, _ := tpm.UnmarshalVendorID(string(b)); _ = v.String() }},
	{"tpm.GetHardwareDetailsFromCertificate", func(b []byte) {
		if c, err := x509.ParseCertificate(b); err == nil {
			_, _ = tpm.GetHardwareDetailsFromCertificate(c)
		}
	}},
	{"android.UnmarshalKeyDescription", func(b []byte) {
		k, _, err := android.UnmarshalKeyDescription(b)
		if err == nil && k != nil {
			_, _ = k.Marshal()
			_ = k.TeeEnforced.Purpose.Has(2)
		}
	}},
	{"fido.ParseAAGUID", func(b []byte) { a, _ := fido.ParseAAGUID(string(b)); _ = a.String(); _ = a.Valid() }},
	{"fido.UnmarshalMetadataBLOBPayload", func(b []byte) { _, _ = fido.UnmarshalMetadataBLOBPayload(string(b)) }},
	{"json.PublicKeyCredentialCreationOptions", func(b []byte) {
		var v webauthn.PublicKeyCredentialCreationOptions
		if json.Unmarshal(b, &v) == nil {
			_, _ = json.Marshal(v)
			_ = v.AllowsAlgorithm(-7)
		}
	}},
	{"json.PublicKeyCredentialRequestOptions", func(b []byte) {
		var v webauthn.PublicKeyCredentialRequestOptions
		if json.Unmarshal(b, &v) == nil {
			_, _ = json.Marshal(v)
		}
	}},
	{"json.PublicKeyCreationCredential", func(b []byte) {
		var v webauthn.PublicKeyCreationCredential
		if json.Unmarshal(b, &v) == nil {
			_, _ = json.Marshal(v)
			_, _ = v.Response.UnmarshalClientData()
			_, _ = v.Response.UnmarshalAttestationObject()
			_ = v.Response.GetClientDataJSONHash()
		}
	}},
	{"json.PublicKeyAssertionCredential", func(b []byte) {
		var v webauthn.PublicKeyAssertionCredential
		if json.Unmarshal(b, &v) == nil {
			_, _ = json.Marshal(v)
			_, _ = v.Response.UnmarshalClientData()
			_, _ = v.Response.UnmarshalAuthenticatorData()
		}
	}},
	{"json.PublicKeyCredentialDescriptor", func(b []byte) {
		var v webauthn.PublicKeyCredentialDescriptor
		if json.Unmarshal(b, &v) == nil {
			_, _ = json.Marshal(v)
		}
	}},
	{"json.PublicKeyCredentialUserEntity", func(b []byte) {
		var v webauthn.PublicKeyCredentialUserEntity
		if json.Unmarshal(b, &v) == nil {
			_, _ = json.Marshal(v)
		}
	}},
	{"json.AAGUID", func(b []byte) { var v fido.AAGUID; _ = json.Unmarshal(b, &v) }},
	{"json.MetadataBLOBPayload", func(b []byte) {
		var v fido.MetadataBLOBPayload
		if json.Unmarshal(b, &v) == nil {
			for _, e := range v.Entries {
				_, _ = e.MetadataStatement.ParseAttestationRootCertificates()
			}
		}
	}},
	{"ceremony.registration(attObj)", func(b []byte) {
		rp := webauthn.NewRelyingParty("https://example.com", webauthn.NewInMemoryCredentialStorage())
		cd := []byte(`{"type":"webauthn.create","challenge":"AAAA","origin":"https://example.com"}`)
		for _, opts := range []*webauthn.PublicKeyCredentialCreationOptions{
			{Challenge: []byte{0, 0, 0}, PubKeyCredParams: []webauthn.PublicKeyCredentialParameters{{COSEAlgorithmIdentifier: -7}}},
			{Challenge: []byte{0, 0, 0}, AuthenticatorSelection: &webauthn.AuthenticatorSelectionCriteria{UserVerification: "required"}},
		} {
			_, _ = rp.VerifyRegistrationCeremony(context.Background(), opts, &webauthn.PublicKeyCreationCredential{RawID: []byte("x"),
				Response: webauthn.AuthenticatorAttestationResponse{ClientDataJSON: cd, AttestationObject: b}})
		}
	}},
	{"ceremony.registration(clientData)", func(b []byte) {
		rp := webauthn.NewRelyingParty(string(b), webauthn.NewInMemoryCredentialStorage())
		_, _ = rp.VerifyRegistrationCeremony(context.Background(), &webauthn.PublicKeyCredentialCreationOptions{}, &webauthn.PublicKeyCreationCredential{
			Response: webauthn.AuthenticatorAttestationResponse{ClientDataJSON: b, AttestationObject: b}})
	}},
	{"ceremony.authentication(authData)", func(b []byte) {
		st := webauthn.NewInMemoryCredentialStorage()
		_ = st.SetCredential(context.Background(), &webauthn.Credential{ID: []byte("x"), OwnerID: nil, PublicKey: b})
		rp := webauthn.NewRelyingParty("https://example.com", st)
		cd := []byte(`{"type":"webauthn.get","challenge":"AAAA","origin":"https://example.com"}`)
		_, _ = rp.VerifyAuthenticationCeremony(context.Background(), &webauthn.PublicKeyCredentialRequestOptions{Challenge: []byte{0, 0, 0}},
			&webauthn.PublicKeyAssertionCredential{RawID: []byte("x"), Response: webauthn.AuthenticatorAssertionResponse{ClientDataJSON: cd, AuthenticatorData: b, Signature: b}})
		// stored key = arbitrary bytes, honest-looking authenticator data
		ad := append(sha([]byte("example.com")), 0x01, 0, 0, 0, 0)
		_, _ = rp.VerifyAuthenticationCeremony(context.Background(), &webauthn.PublicKeyCredentialRequestOptions{Challenge: []byte{0, 0, 0}},
			&webauthn.PublicKeyAssertionCredential{RawID: []byte("x"), Response: webauthn.AuthenticatorAssertionResponse{ClientDataJSON: cd, AuthenticatorData: ad, Signature: b}})
	}},
}

func init() {
	entryPoints = append(entryPoints,
		entryPoint{"ceremony.authentication(storedKey)", func(b []byte) {
			// the stored public key is the input; authenticator data and client data are honest
			st := webauthn.NewInMemoryCredentialStorage()
			_ = st.SetCredential(context.Background(), &webauthn.Credential{ID: []byte("x"), PublicKey: b})
			rp := webauthn.NewRelyingParty("https://example.com", st)
			cd := []byte(`{"type":"webauthn.get","challenge":"AAAA","origin":"https://example.com"}`)
			ad := append(sha([]byte("example.com")), 0x01, 0, 0, 0, 0)
			for _, sig := range [][]byte{nil, {0x30, 0x00}, make([]byte, 64), make([]byte, 256)} {
				_, _ = rp.VerifyAuthenticationCeremony(context.Background(), &webauthn.PublicKeyCredentialRequestOptions{Challenge: []byte{0, 0, 0}},
					&webauthn.PublicKeyAssertionCredential{RawID: []byte("x"), Response: webauthn.AuthenticatorAssertionResponse{ClientDataJSON: cd, AuthenticatorData: ad, Signature: sig}})
			}
		}},
		entryPoint{"ceremony.registration(attestedKey)", func(b []byte) {
			// the attested credential key is the input, inside otherwise honest none / packed-self attestation objects
			ad := AuthDataSpec{RPIDHash: sha([]byte("example.com")), Flags: 0x41, AAGUID: make([]byte, 16), CredID: []byte("x"), Key: b}.Bytes()
			cd := []byte(`{"type":"webauthn.create","challenge":"AAAA","origin":"https://example.com"}`)
			for _, stmt := range [][]byte{cborMap(), cborMap(cborText("alg"), cborInt(-8), cborText("sig"), cborBytes(make([]byte, 64))), cborMap(cborText("alg"), cborInt(-7), cborText("sig"), cborBytes([]byte{0x30, 0}))} {
				for _, f := range []string{"none", "packed"} {
					ao := cborMap(cborText("fmt"), cborText(f), cborText("attStmt"), stmt, cborText("authData"), cborBytes(ad))
					rp := webauthn.NewRelyingParty("https://example.com", webauthn.NewInMemoryCredentialStorage())
					_, _ = rp.VerifyRegistrationCeremony(context.Background(), &webauthn.PublicKeyCredentialCreationOptions{Challenge: []byte{0, 0, 0},
						PubKeyCredParams: []webauthn.PublicKeyCredentialParameters{{COSEAlgorithmIdentifier: -7}, {COSEAlgorithmIdentifier: -8}, {COSEAlgorithmIdentifier: -257}, {COSEAlgorithmIdentifier: -36}, {COSEAlgorithmIdentifier: -39}}},
						&webauthn.PublicKeyCreationCredential{RawID: []byte("x"), Response: webauthn.AuthenticatorAttestationResponse{ClientDataJSON: cd, AttestationObject: ao}})
				}
			}
		}})
}

const entryBudget = 20 * time.Second

func runEntry(ep entryPoint, data []byte) M {
	done := make(chan M, 1)
	start := time.Now()
	go func() {
		done <- guard(func() M { ep.run(data); return M{"returned": true} })
	}()
	select {
	case r := <-done:
		if _, bad := r["panic"]; bad {
			return M{"returned": false, "panic": r["panic"]}
		}
		if d := time.Since(start); d > 5*time.Second {
			return M{"returned": true, "slow_s": int(d.Seconds())}
		}
		return M{"returned": true}
	case <-time.After(entryBudget):
		return M{"returned": false, "timeout_s": int(entryBudget.Seconds())}
	}
}

func init() {
	executors["entry"] = func(c *Ctx, stream string, op M) {
		name := op["name"].(string)
		for _, ep := range entryPoints {
			if ep.name == name {
				var ms runtime.MemStats
				impl := runEntry(ep, unhx(op["data"].(string)))
				runtime.ReadMemStats(&ms)
				if ms.HeapAlloc > 6<<30 {
					impl["heap_gib"] = int(ms.HeapAlloc >> 30)
				}
				c.Compare(stream, op, impl, M{"returned": true}, name, len(unhx(op["data"].(string))) > 0)
				return
			}
		}
		panic("unknown entry point " + name)
	}
	// seeds: structurally valid inputs per entry point, to be mutated
	seedsFor := func(r *RNG, name string) [][]byte {
		var out [][]byte
		reg := func(f string) *RegBuilt {
			s := newRegSpec(r, f, pick(r, credAlgsFor(f)))
			s.AttAlg = pick(r, attAlgsFor(f))
			return buildRegistration(r, s)
		}
		switch name {
		case "webauthn.UnmarshalAuthenticatorData", "ceremony.authentication(authData)":
			out = append(out, genAuthDataBytes(r, true), reg("none").AuthData)
		case "webauthn.UnmarshalAttestedCredentialData":
			out = append(out, reg("none").AuthData[37:])
		case "webauthn.UnmarshalAttestationObject+Verify", "ceremony.registration(attObj)":
			for _, f := range allFormats {
				out = append(out, reg(f).AttObj())
			}
		case "cose.UnmarshalPublicKey", "cose.UnmarshalECDSAPublicKey", "cose.UnmarshalEdDSAPublicKey", "cose.UnmarshalRSAPublicKey", "ceremony.authentication(storedKey)", "ceremony.registration(attestedKey)":
			for _, a := range []int{algES256, algEdDSA, algRS256, algES512} {
				out = append(out, genKeyPair(r, a).COSE(true))
			}
		case "tpm.UnmarshalAttestationData", "tpm.UnmarshalPublic":
			b := reg("tpm")
			n, off := cborReadHead(b.Stmt, 0)
			for i := uint64(0); i < n; i++ {
				ks := off
				off = cborSkip(b.Stmt, off)
				vs := off
				off = cborSkip(b.Stmt, off)
				k := string(b.Stmt[ks+1 : vs])
				if (k == "certInfo" && name == "tpm.UnmarshalAttestationData") || (k == "pubArea" && name == "tpm.UnmarshalPublic") {
					_, bs := cborReadHead(b.Stmt, vs)
					out = append(out, b.Stmt[bs:off])
				}
			}
		case "tpm.UnmarshalVendorID":
			out = append(out, []byte("id:414D4400"))
		case "tpm.GetHardwareDetailsFromCertificate":
			kp := genKeyPairOnCurve(r, algES256, 1, false)
			out = append(out, makeCert(kp.Public(), CertSpec{Extensions: nil}), makeCert(kp.Public(), CertSpec{Extensions: nil}))
		case "android.UnmarshalKeyDescription":
			out = append(out, genKD(r, "go").DER(), genKD(r, "schema").DER())
		case "fido.ParseAAGUID":
			out = append(out, []byte("01020304-0506-0708-090a-0b0c0d0e0f10"))
		case "fido.UnmarshalMetadataBLOBPayload":
			p := newPKI(r, 2, false)
			out = append(out, []byte(makeJWS(p.leafKey, []byte(`{"no":1}`), p.chain(), true)))
		case "ceremony.registration(clientData)":
			out = append(out, []byte(`{"type":"webauthn.create","challenge":"","origin":"https://example.com"}`), []byte("https://example.com"))
		default:
			w := genWire(r)
			out = append(out, w.text, []byte(`{"aaguid":"01020304-0506-0708-090a-0b0c0d0e0f10","entries":[{"metadataStatement":{"attestationRootCertificates":["AAAA"]}}]}`))
		}
		return out
	}
	register("C09",
		Stream{"entry.mutated", func(c *Ctx) {
			n := c.N(150, 20000)
			for _, ep := range entryPoints {
				for i := 0; i < n; i++ {
					seeds := seedsFor(c.R, ep.name)
					b := mutate(c.R, pick(c.R, seeds))
					if c.R.P(1, 4) {
						b = mutate(c.R, b)
					}
					executors["entry"](c, "entry.mutated", M{"op": "entry", "name": ep.name, "data": hx(b)})
				}
			}
		}},
		Stream{"entry.random", func(c *Ctx) {
			n := c.N(150, 20000)
			for _, ep := range entryPoints {
				for i := 0; i < n; i++ {
					var b []byte
					switch c.R.Intn(4) {
					case 0:
						b = c.R.Bytes(c.R.Intn(64))
					case 1:
						b = genCBOR(c.R, 4, true)
					case 2:
						b = c.R.Bytes(c.R.Intn(2000))
					default:
						b = []byte(pick(c.R, []string{"", "{}", "[]", "null", "0", "\"\"", "{\"id\":null}", "{\"response\":{}}", "a.b.c", "....", "id:", "{\"rawId\":\"====\"}"}))
					}
					executors["entry"](c, "entry.random", M{"op": "entry", "name": ep.name, "data": hx(b)})
				}
			}
		}},
		Stream{"entry.extreme", func(c *Ctx) {
			// huge-length heads, deep nesting, 64 KiB inputs, oversized / zero / off-curve key material, empty signatures
			var cases [][]byte
			for _, k := range []byte{4, 5, 6} {
				for _, d := range []int{33, 1000, 30000} {
					cases = append(cases, nested(k, d))
				}
			}
			cases = append(cases, append([]byte{0x5b, 0x7f, 0xff, 0xff, 0xff, 0xff, 0xff, 0xff, 0xff}, 1, 2, 3), append([]byte{0x9b, 0x00, 0x00, 0x00, 0x01, 0x00, 0x00, 0x00, 0x00}, 1),
				append([]byte{0xbb, 0xff, 0xff, 0xff, 0xff, 0xff, 0xff, 0xff, 0xff}, 1), c.R.Bytes(65536), make([]byte, 65536),
				append([]byte{0x9f}, make([]byte, 65534)...), append(append([]byte{0x5f}, bytesRepeat([]byte{0x41, 0x00}, 30000)...), 0xff))
			// keys: zero coordinates, off-curve, huge modulus, zero modulus, exponent 0 / 1 / 2^62
			zero32 := make([]byte, 32)
			cases = append(cases,
				cborMap(cborInt(1), cborInt(2), cborInt(3), cborInt(-7), cborInt(-1), cborInt(1), cborInt(-2), cborBytes(zero32), cborInt(-3), cborBytes(zero32)),
				cborMap(cborInt(1), cborInt(2), cborInt(3), cborInt(-7), cborInt(-1), cborInt(1), cborInt(-2), cborBytes(c.R.Bytes(32)), cborInt(-3), cborBytes(c.R.Bytes(32))),
				cborMap(cborInt(1), cborInt(2), cborInt(3), cborInt(-7), cborInt(-1), cborInt(1), cborInt(-2), cborBytes(c.R.Bytes(5000)), cborInt(-3), cborBytes(nil)),
				cborMap(cborInt(1), cborInt(3), cborInt(3), cborInt(-257), cborInt(-1), cborBytes(nil), cborInt(-2), cborBytes(nil)),
				cborMap(cborInt(1), cborInt(3), cborInt(3), cborInt(-257), cborInt(-1), cborBytes(c.R.Bytes(4096)), cborInt(-2), cborBytes([]byte{0x40, 0, 0, 0, 0, 0, 0, 0})),
				cborMap(cborInt(1), cborInt(3), cborInt(3), cborInt(-37), cborInt(-1), cborBytes([]byte{1}), cborInt(-2), cborBytes([]byte{1})),
				cborMap(cborInt(1), cborInt(1), cborInt(3), cborInt(-8), cborInt(-1), cborInt(6), cborInt(-2), cborBytes(zero32)))
			// key material of every kind with lengths off by one, doubled, empty
			for _, l := range []int{0, 1, 31, 33, 64, 65} {
				cases = append(cases,
					cborMap(cborInt(1), cborInt(1), cborInt(3), cborInt(-8), cborInt(-1), cborInt(6), cborInt(-2), cborBytes(c.R.Bytes(l))),
					cborMap(cborInt(1), cborInt(1), cborInt(-1), cborInt(6), cborInt(-2), cborBytes(c.R.Bytes(l))),
					cborMap(cborInt(1), cborInt(2), cborInt(3), cborInt(-7), cborInt(-1), cborInt(1), cborInt(-2), cborBytes(c.R.Bytes(l)), cborInt(-3), cborBytes(c.R.Bytes(l))),
					cborMap(cborInt(1), cborInt(2), cborInt(3), cborInt(-36), cborInt(-1), cborInt(3), cborInt(-2), cborBytes(c.R.Bytes(l+2)), cborInt(-3), cborBytes(c.R.Bytes(l))),
					cborMap(cborInt(1), cborInt(3), cborInt(3), cborInt(-257), cborInt(-1), cborBytes(c.R.Bytes(l)), cborInt(-2), cborBytes([]byte{1, 0, 1})),
					cborMap(cborInt(1), cborInt(3), cborInt(3), cborInt(-39), cborInt(-1), cborBytes(c.R.Bytes(l)), cborInt(-2), cborBytes(c.R.Bytes(l%9))))
			}
			// retyping: genuine key material of every kind under every key type × every registered algorithm (and a few others): a key
			// that comes back without an error must be usable (Verify, Marshal, …), whatever its members say
			for _, a := range []int{algES256, algES384, algES512, algRS256, algEdDSA} {
				kp := genKeyPair(c.R, a)
				for _, alg := range append(append([]int{}, allAlgs...), 0, 1, -1, -9, -47, -65536) {
					switch kp.Kind {
					case "ec":
						size := (kp.EC.Curve.Params().BitSize + 7) / 8
						for _, kty := range []int64{1, 2, 3} {
							cases = append(cases, cborMap(cborInt(1), cborInt(kty), cborInt(3), cborInt(int64(alg)), cborInt(-1), cborInt(int64(kp.Crv)), cborInt(-2), cborBytes(fixed(kp.EC.X, size)), cborInt(-3), cborBytes(fixed(kp.EC.Y, size))))
						}
					case "ed":
						for _, kty := range []int64{1, 2, 3} {
							cases = append(cases, cborMap(cborInt(1), cborInt(kty), cborInt(3), cborInt(int64(alg)), cborInt(-1), cborInt(6), cborInt(-2), cborBytes(kp.Ed.Public().(ed25519.PublicKey))))
						}
					default:
						for _, kty := range []int64{1, 2, 3} {
							cases = append(cases, cborMap(cborInt(1), cborInt(kty), cborInt(3), cborInt(int64(alg)), cborInt(-1), cborBytes(kp.RSA.N.Bytes()), cborInt(-2), cborBytes(big.NewInt(int64(kp.RSA.E)).Bytes())))
						}
					}
				}
			}
			if c.Thorough() {
				cases = append(cases, cborMap(cborInt(1), cborInt(3), cborInt(3), cborInt(-257), cborInt(-1), cborBytes(append([]byte{0xff}, c.R.Bytes(59999)...)), cborInt(-2), cborBytes([]byte{1, 0, 1})))
			}
			for _, ep := range entryPoints {
				for _, b := range cases {
					executors["entry"](c, "entry.extreme", M{"op": "entry", "name": ep.name, "data": hx(b)})
				}
			}
		}},
		Stream{"structured.deletion", func(c *Ctx) {
			// honest ceremonies of every format with one member deleted / emptied / retyped / extremised, through the model-compared executors
			// (a panic or a timeout in the implementation shows up as a disagreement with the model's reject)
			n := c.N(40, 3000)
			for i := 0; i < n; i++ {
				for _, f := range allFormats {
					s := newRegSpec(c.R, f, pick(c.R, credAlgsFor(f)))
					s.AttAlg = pick(c.R, attAlgsFor(f))
					switch c.R.Intn(6) {
					case 0:
						s.AuthSelUV = nil
					case 1:
						s.Dev["ad.noACD"] = true
					case 2:
						s.Algs = nil
					case 3:
						s.Flags ^= 1 << uint(c.R.Intn(8))
					}
					b := buildRegistration(c.R, s)
					if f != "none" && c.R.P(2, 3) {
						b.Stmt = mutateStmt(c.R, b.Stmt)
					}
					if c.R.P(1, 4) {
						// length prefix of the credential id
						if len(b.AuthData) > 54 {
							b.AuthData = append([]byte{}, b.AuthData...)
							b.AuthData[53+c.R.Intn(2)] ^= byte(1 << uint(c.R.Intn(8)))
						}
					}
					op := b.Op()
					op["_dev"] = "structured"
					executors["register"](c, "structured.deletion", op)
					aop := b.AttestOp(pick(c.R, []string{"", "packed", "tpm", "fido-u2f", "android-key", "apple", "android-safetynet", "none"}))
					aop["_dev"] = "structured"
					executors["attest"](c, "structured.deletion.attest", aop)
				}
			}
		}},
		Stream{"structured.memberProduct", func(c *Ctx) { memberProduct(c, "structured.memberProduct") }},
		Stream{"ceremony.ownStorage", func(c *Ctx) {
			// short histories over the library's OWN storage (NewInMemoryCredentialStorage), handed to the relying party as it is: register,
			// register the same response again, re-register the id by its owner and by another user, authenticate in between — every call returns
			n := c.N(3, 100)
			for i := 0; i < n; i++ {
				for _, f := range []string{"none", "packed-self", "fido-u2f", "packed-x5c"} {
					r := c.R
					origin := pick(r, honestOrigins)
					st := webauthn.NewInMemoryCredentialStorage()
					rp := webauthn.NewRelyingParty(origin, st)
					user, other := r.Bytes(6), r.Bytes(6)
					id := r.Bytes(16)
					mk := func(owner []byte) (*RegBuilt, M) {
						s := newRegSpec(r, f, pick(r, credAlgsFor(f)))
						s.Origin, s.Client, s.UserID, s.CredID = origin, origin, owner, id
						s.AttAlg = pick(r, attAlgsFor(f))
						s.Inert = nil
						b := buildRegistration(r, s)
						return b, b.Op()
					}
					b1, reg1 := mk(user)
					b2, reg2 := mk(user)
					_, reg3 := mk(other)
					auth := func(b *RegBuilt) M {
						as := newAuthSpec(r, origin, b.Cred, id, user, b.Cred.COSE(true))
						as.Inert = nil
						return buildAssertion(r, as)
					}
					steps := []M{reg1, auth(b1), reg1, reg2, auth(b2), auth(b1), reg3, auth(b2), reg1}
					for k, step := range steps {
						res := goCeremonyFromOpPlain(step).run(rp)
						step["_dev"] = fmt.Sprintf("ownStorage/%s/step%d", f, k)
						c.Compare("ceremony.ownStorage", step, res, M{"ok": false}, fmt.Sprintf("%s/step%d/%v", f, k, step["op"]), true)
					}
				}
			}
		}},
		Stream{"structured.retyped", func(c *Ctx) {
			// a credential key whose algorithm belongs to another key type, and (android-key, apple) a certificate key of another kind than
			// the credential key, through registration; whatever registration stored is then used by an authentication: none of it may panic
			n := c.N(2, 60)
			for i := 0; i < n; i++ {
				for _, f := range allFormats {
					for _, dv := range []string{"key.algOfOtherType", "ak.certKeyOtherKind", "apple.certKeyOtherKind"} {
						if (dv == "ak.certKeyOtherKind" && f != "android-key") || (dv == "apple.certKeyOtherKind" && f != "apple") {
							continue
						}
						for v := 0; v < 5; v++ {
							for _, credAlg := range []int{algES256, algRS256, algEdDSA} {
								if f == "fido-u2f" && credAlg != algES256 || f == "tpm" && credAlg == algEdDSA {
									continue
								}
								s := newRegSpec(c.R, f, credAlg)
								s.AttAlg = pick(c.R, attAlgsFor(f))
								s.Var = v
								s.Dev[dv] = true
								b := buildRegistration(c.R, s)
								op := b.Op()
								op["_dev"] = dv
								st := storeFromOp(op)
								rp := webauthn.NewRelyingParty(string(unhx(op["origin"].(string))), st)
								res := goCeremonyFromOpPlain(op).run(rp)
								c.Compare("structured.retyped", op, res, M{"ok": false}, "register/"+f+"/"+dv, true)
								for _, rec := range st.dump() {
									// an assertion for the stored record, signed with the genuine private key (the outcome does not matter)
									as := newAuthSpec(c.R, string(unhx(op["origin"].(string))), b.Cred, unhx(rec["id"].(string)), unhx(rec["owner"].(string)), unhx(rec["pk"].(string)))
									aop := buildAssertion(c.R, as)
									aop["_dev"] = dv
									ares := goCeremonyFromOpPlain(aop).run(rp)
									c.Compare("structured.retyped", aop, ares, M{"ok": false}, "authenticate-after/"+f+"/"+dv, true)
								}
							}
						}
					}
				}
			}
		}},
		Stream{"ceremony.origins", func(c *Ctx) {
			// both ceremonies on client origins whose host has empty labels, trailing dots, only dots, … (the label walk must terminate)
			hosts := []string{"www..example.org", ".example.org", "a.b..c.example.org:8443", "example.org.", "..", "a..b", "...example.org", ".", "example.org..", "x.", ".x"}
			for _, rp := range []string{"https://example.org", "https://login.example.org", "https://org"} {
				for _, h := range hosts {
					s := newRegSpec(c.R, "none", algES256)
					s.Origin, s.Client = rp, "https://"+h
					op := buildRegistration(c.R, s).Op()
					op["_dev"] = "origin-labels"
					executors["register"](c, "ceremony.origins", op)
					kp := genKeyPair(c.R, algES256)
					as := newAuthSpec(c.R, rp, kp, c.R.Bytes(16), c.R.Bytes(8), kp.COSE(true))
					as.Client = "https://" + h
					aop := buildAssertion(c.R, as)
					aop["_dev"] = "origin-labels"
					executors["authenticate"](c, "ceremony.origins", aop)
				}
			}
		}},
		Stream{"structured.requirements", func(c *Ctx) {
			// every single-requirement deviation of every format (emptied / shortened ASN.1 extensions, absent members, foreign chains, …):
			// the verifiers must return, whatever they return
			for i := 0; i < c.N(1, 20); i++ {
				for f, devs := range formatRequirementDevs {
					for _, dv := range devs {
						for v := 0; v < 5; v++ {
							attestCaseVar(c, "structured.requirements", f, []string{dv}, (i+v)%2 == 0, v)
						}
					}
				}
			}
		}},
		Stream{"structured.tpm", func(c *Ctx) {
			// TPM structure fields: name without digest (handle / empty), wrong type, mismatched algorithms — behind a correct extraData
			for i := 0; i < c.N(6, 200); i++ {
				for _, dv := range []string{"tpm.nameHandle", "tpm.nameEmpty", "tpm.badType", "tpm.nameAlgMismatch", "tpm.noCerts", "tpm.noSAN", "tpm.v1"} {
					attestCase(c, "structured.tpm", "tpm", []string{dv}, i%2 == 0)
				}
			}
		}},
	)
}

func bytesRepeat(b []byte, n int) []byte {
	out := make([]byte, 0, len(b)*n)
	for i := 0; i < n; i++ {
		out = append(out, b...)
	}
	return out
}

var _ = fmt.Sprint
