package main

import (
	"crypto/x509"
	"crypto/x509/pkix"
	"fmt"

	"github.com/pomerium/webauthn/tpm"
)

// Correspondence of the Lean SAN / RDN parse (Model/San.lean + Model/Tpm.lean) with tpm.GetHardwareDetailsFromCertificate, at byte level.

func derOID(arcs ...int) []byte {
	var c []byte
	b128 := func(v int) []byte {
		var o []byte
		for {
			x := byte(v & 0x7f)
			if len(o) > 0 {
				x |= 0x80
			}
			o = append([]byte{x}, o...)
			v >>= 7
			if v == 0 {
				break
			}
		}
		return o
	}
	c = append(c, b128(arcs[0]*40+arcs[1])...)
	for _, a := range arcs[2:] {
		c = append(c, b128(a)...)
	}
	return derTLV(0, false, 6, c)
}

func init() {
	executors["san.details"] = func(c *Ctx, stream string, op M) {
		model := c.Call(M{"op": "san.details", "sans": op["sans"]})
		delete(model, "id")
		if um, _ := model["unmodelled"].(bool); um {
			c.Unmodelled(stream)
			return
		}
		var exts []pkix.Extension
		for _, h := range hexList(op["sans"]) {
			exts = append(exts, pkix.Extension{Id: oidSANExt, Value: h})
		}
		impl := guard(func() M {
			d, err := tpm.GetHardwareDetailsFromCertificate(&x509.Certificate{Extensions: exts})
			if err != nil || d == nil {
				return M{"ok": false}
			}
			return M{"ok": true, "vendorId": hx(d.Manufacturer.ID[:]), "vendorName": d.Manufacturer.Name, "part": hx([]byte(d.PartNumber)), "fw": hx([]byte(d.FirmwareVersion))}
		})
		class := "reject"
		if ok, _ := impl["ok"].(bool); ok {
			class = "accept"
		}
		if dv, ok := op["_dev"].(string); ok {
			class += "/" + dv
		}
		c.Compare(stream, op, impl, model, class, true)
	}
	oMfr, oModel, oVer := derOID(2, 23, 133, 2, 1), derOID(2, 23, 133, 2, 2), derOID(2, 23, 133, 2, 3)
	register("C17",
		Stream{"san.bytes", func(c *Ctx) {
			r := c.R
			strTag := []int{12, 19, 22, 20, 18, 30}
			val := func(s string) []byte {
				// the attribute value under one of the string types (BMP: UTF-16BE), sometimes with content the type does not allow
				tag := pick(r, strTag)
				b := []byte(s)
				if tag == 30 {
					var u []byte
					for _, ch := range s {
						u = append(u, byte(ch>>8), byte(ch))
					}
					if r.P(1, 4) {
						u = append(u, 0, 0)
					}
					if r.P(1, 8) {
						u = append(u, 0x41)
					}
					b = u
				}
				if r.P(1, 30) {
					b = append(b, pick(r, [][]byte{{0xff}, {0xc3}, {'*'}, {'&'}, {'_'}, {0x80}, {0xd8, 0x00}})...)
				}
				return derTLV(0, false, tag, b)
			}
			other := func() []byte {
				return pick(r, [][]byte{derInt(5), derTLV(0, false, 2, []byte{0, 1}), derTLV(0, false, 2, nil), derTLV(0, false, 3, []byte{0, 0xff}), derTLV(0, false, 3, []byte{1, 0xff}),
					derTLV(0, false, 3, nil), derTLV(0, false, 3, []byte{8, 0}), derOID(1, 2, 3), derTLV(0, false, 6, nil), derTLV(0, false, 6, []byte{0x80, 1}), derOctets([]byte("id:414D4400")),
					derNull(), derSeq(derInt(1)), derTLV(2, false, 0, []byte("x")), derTLV(0, false, 23, []byte("260101000000Z")), derTLV(0, false, 24, []byte("20260101000000Z")),
					derTLV(0, true, 12, []byte("id:414D4400")), derBool(true), derEnum(1)})
			}
			atv := func(oid, v []byte) []byte { return derSeq(oid, v) }
			vendors := []string{"id:414D4400", "id:494E5443", "id:FFFFF1D0", "id:00000000", "id:12345678", "id:414d4400", "AMD", "id:414D44", ""}
			n := c.N(1500, 80000)
			for i := 0; i < n; i++ {
				var sets [][]byte
				mk := func(oid []byte, s string) []byte {
					if r.P(1, 20) {
						return atv(oid, other())
					}
					return atv(oid, val(s))
				}
				attrs := [][]byte{mk(oMfr, pick(r, vendors[:3+pick(r, []int{0, 0, 0, 2, 6})])), mk(oModel, pick(r, []string{"NPCT6xx", "m", "model x", ""})), mk(oVer, pick(r, []string{"id:13", "v", "1.2", ""}))}
				if r.P(1, 4) {
					attrs = append(attrs, mk(derOID(2, 5, 4, 3), "cn"), mk(oMfr, pick(r, vendors)))
				}
				if r.P(1, 10) {
					attrs = attrs[:r.Intn(len(attrs)+1)]
				}
				if r.P(1, 3) {
					perm := r.Perm(len(attrs))
					var p [][]byte
					for _, k := range perm {
						p = append(p, attrs[k])
					}
					attrs = p
				}
				// group the attributes into SETs (one each, all in one, or pairs)
				switch r.Intn(3) {
				case 0:
					for _, a := range attrs {
						sets = append(sets, derSet(a))
					}
				case 1:
					sets = append(sets, derSet(attrs...))
				default:
					for k := 0; k < len(attrs); k += 2 {
						e := k + 2
						if e > len(attrs) {
							e = len(attrs)
						}
						sets = append(sets, derSet(attrs[k:e]...))
					}
				}
				if r.P(1, 12) {
					sets = append(sets, pick(r, [][]byte{derSet(), derSeq(atv(oMfr, val("id:414D4400"))), derSet(derSeq(oMfr)), derSet(derSeq()), derSet(derSeq(val("x"), oMfr)),
						derSet(derSeq(oMfr, val("id:494E5443"), derInt(1))), derSet(derInt(1)), derInt(1)}))
				}
				rdn := derSeq(sets...)
				if r.P(1, 15) {
					rdn = pick(r, [][]byte{derSet(sets...), append(append([]byte{}, rdn...), 1, 2), nil, rdn[:len(rdn)/2], derSeq(derSeq(sets...))})
				}
				var names [][]byte
				dir := derTLV(2, true, 4, rdn)
				if r.P(1, 10) {
					dir = derTLV(pick(r, []int{0, 1, 2, 3}), r.Bool(), pick(r, []int{3, 4, 5, 16}), rdn)
				}
				for k := 0; k < r.Intn(3); k++ {
					names = append(names, derTLV(2, false, 2, []byte("before.example")))
				}
				names = append(names, dir)
				if r.P(1, 5) {
					names = append(names, derTLV(2, true, 4, derSeq(derSet(atv(oMfr, val("id:494E5443")), atv(oModel, val("m2")), atv(oVer, val("v2"))))))
				}
				for k := 0; k < r.Intn(2); k++ {
					names = append(names, derTLV(2, false, 1, []byte("after@example")))
				}
				san := derSeq(names...)
				sans := []string{hx(san)}
				switch r.Intn(12) {
				case 0:
					sans = []string{hx(mutate(r, san))}
				case 1:
					sans = []string{hx(append(append([]byte{}, san...), 0x05, 0x00))}
				case 2:
					sans = []string{hx(derSeq(derTLV(2, false, 2, []byte("only.dns")))), hx(san)}
				case 3:
					sans = []string{hx(san[:r.Intn(len(san)+1)])}
				case 4:
					sans = []string{hx(derSet(names...))}
				}
				executors["san.details"](c, "san.bytes", M{"op": "san.details", "sans": sans, "_dev": fmt.Sprint(len(sans))})
			}
			for i := 0; i < c.N(200, 10000); i++ {
				executors["san.details"](c, "san.bytes", M{"op": "san.details", "sans": []string{hx(r.Bytes(r.Intn(30)))}, "_dev": "random"})
			}
			executors["san.details"](c, "san.bytes", M{"op": "san.details", "sans": []string{}, "_dev": "none"})
		}},
	)
}
