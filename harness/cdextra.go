package main

import "encoding/json"

// benignCDExtra: members a browser may add to the client data besides type / challenge / origin (crossOrigin,
// tokenBinding in every status, topOrigin, and unknown members of every JSON value kind); none of them may change
// the outcome of an honest ceremony (C05)
func benignCDExtra(r *RNG) M {
	m := M{}
	if r.Bool() {
		m["crossOrigin"] = r.Bool()
	}
	if r.P(1, 3) {
		tb := M{"status": pick(r, []string{"supported", "present", "not-supported", "a-future-status"})}
		if tb["status"] == "present" || r.P(1, 4) {
			tb["id"] = b64u(r.Bytes(1 + r.Intn(32)))
		}
		m["tokenBinding"] = tb
	}
	if r.P(1, 4) {
		m["topOrigin"] = "https://top." + pick(r, []string{"example", "example.org", "localhost"})
	}
	n := r.Intn(3)
	for i := 0; i < n; i++ {
		k := pick(r, []string{"other_keys_can_be_added_here", "extra", "androidPackageName", "x", "newémember", "hashAlgorithm", "clientExtensions", ""})
		m[k] = pick(r, []any{
			"do not compare clientDataJSON against a template. See https://goo.gl/yabPex",
			"", "snow☃man", json.RawMessage(`"escA\n😀"`),
			0, -1, 4294967296, json.RawMessage(`1.5e3`), json.RawMessage(`-0.25`),
			true, false, nil,
			[]any{}, []any{1, "two", nil, []any{true}}, M{}, M{"nested": M{"deeper": []any{1, 2, 3}}, "type": "webauthn.fake", "origin": "https://evil.example"},
		})
	}
	return m
}
