package main

import (
	"crypto/sha256"
	"fmt"
	"strings"
)

// C13: origin / RP ID matching, observed through real ceremonies whose only variable is the client origin or the hashed RP ID.

func init() {
	executors["origin.matches"] = func(c *Ctx, stream string, op M) {
		// through a `none` registration: everything honest except the client origin
		rpOrigin := string(unhx(op["rp"].(string)))
		client := string(unhx(op["client"].(string)))
		model := c.Call(op)
		delete(model, "id")
		r := NewRNG(hashName(rpOrigin + "|" + client))
		s := newRegSpec(r, "none", algES256)
		s.Origin, s.Client = rpOrigin, client
		s.CDExtra = nil
		// RP ID as the library derives it is what the authenticator hashes: take it from the model (host of the origin)
		b := buildRegistration(r, s)
		rpid := unhx(model["rpId"].(string))
		h := sha256.Sum256(rpid)
		copy(b.AuthData[:32], h[:])
		regOp := b.Op()
		impl := runRegisterImpl(regOp)
		class := "reject"
		if m, _ := model["match"].(bool); m {
			class = "match"
		}
		if ex, ok := op["_expect"].(bool); ok {
			c.Compare(stream+".truth", op, M{"match": impl["ok"]}, M{"match": ex}, class, true)
		}
		c.Compare(stream, op, M{"match": impl["ok"]}, M{"match": model["match"]}, class, true)
		// the same question through an authentication ceremony (the property speaks of both ceremonies)
		kp := genKeyPair(r, algES256)
		as := newAuthSpec(r, rpOrigin, kp, r.Bytes(16), r.Bytes(8), kp.COSE(true))
		as.Client = client
		as.CDExtra = nil
		as.RPID = rpid
		if as.RPID == nil {
			as.RPID = []byte{}
		}
		aimpl := runAuthImpl(buildAssertion(r, as))
		if ex, ok := op["_expect"].(bool); ok {
			c.Compare(stream+".auth.truth", op, M{"match": aimpl["ok"]}, M{"match": ex}, class, true)
		}
		c.Compare(stream+".auth", op, M{"match": aimpl["ok"]}, M{"match": model["match"]}, class, true)
	}
	executors["rpid.hash"] = func(c *Ctx, stream string, op M) {
		// honest registration whose authenticator data hashes `hashed` instead of the RP host
		rpOrigin := string(unhx(op["rp"].(string)))
		hashed := unhx(op["hashed"].(string))
		r := NewRNG(hashName(rpOrigin + "|" + string(hashed)))
		s := newRegSpec(r, "none", algES256)
		s.Origin, s.Client = rpOrigin, rpOrigin
		b := buildRegistration(r, s)
		h := sha256.Sum256(hashed)
		copy(b.AuthData[:32], h[:])
		regOp := b.Op()
		regOp["_dev"] = "rpid"
		executors["register"](c, stream, regOp)
		if ex, ok := op["_expect"].(bool); ok {
			truth(c, stream+".truth", regOp, ex)
		}
		// the same through an authentication ceremony
		kp := genKeyPair(r, algES256)
		as := newAuthSpec(r, rpOrigin, kp, r.Bytes(16), r.Bytes(8), kp.COSE(true))
		as.RPID = hashed
		if as.RPID == nil {
			as.RPID = []byte{}
		}
		aop := buildAssertion(r, as)
		aop["_dev"] = "rpid"
		executors["authenticate"](c, stream+".auth", aop)
		if ex, ok := op["_expect"].(bool); ok {
			truthAuth(c, stream+".auth.truth", aop, ex)
		}
	}
	rpOrigins := []string{"https://example.com", "https://example.com:8443", "http://example.com", "https://login.example.com", "https://localhost",
		"https://192.168.1.10", "https://[2001:db8::1]", "https://[2001:db8::1]:8443", "https://intranet", "https://a.b", "https://EXAMPLE.com", "https://example.com.",
		"example.com", "", "https://", "://bad", "https://exa mple.com", "https://xn--bcher-kva.example", "https://accounts.bank.test", "https://keys.example"}
	run := func(c *Ctx, stream, rp, client string, expect *bool) {
		op := M{"op": "origin.matches", "rp": hx([]byte(rp)), "client": hx([]byte(client))}
		if expect != nil {
			op["_expect"] = *expect
		}
		executors["origin.matches"](c, stream, op)
	}
	t, f := true, false
	register("C13",
		Stream{"origin.labels", func(c *Ctx) {
			// exhaustive label sequences up to depth 4 over a small alphabet around every RP host
			alphabet := []string{"a", "b", "example", "com", "", "xexample", "xa"}
			depth := c.N(3, 4)
			var seqs []string
			var rec func(prefix []string, d int)
			rec = func(prefix []string, d int) {
				if len(prefix) > 0 {
					seqs = append(seqs, strings.Join(prefix, "."))
				}
				if d == 0 {
					return
				}
				for _, l := range alphabet {
					rec(append(append([]string{}, prefix...), l), d-1)
				}
			}
			rec(nil, depth)
			rps := []string{"https://example.com", "https://a.b", "https://com", "https://b.example.com"}
			for _, rp := range rps {
				for _, host := range seqs {
					run(c, "origin.labels", rp, "https://"+host, nil)
				}
			}
			c.Res.mu.Lock()
			c.Res.Exhaustive = append(c.Res.Exhaustive, fmt.Sprintf("all %d label sequences of depth <= %d over {a,b,example,com,\"\",xexample,xa} x 4 RP hosts", len(seqs), depth))
			c.Res.mu.Unlock()
		}},
		Stream{"origin.placements", func(c *Ctx) {
			for _, rp := range rpOrigins {
				h := hostOf(rp)
				if h == "" {
					continue
				}
				hh := h
				if strings.Contains(h, ":") {
					hh = "[" + h + "]"
				}
				// acceptable forms
				for _, cl := range []string{"https://" + hh, "http://" + hh, "https://" + hh + ":444", "ftp://" + hh + "/path?x#y", "https://user@" + hh, "https://sub." + hh, "https://a.b." + hh + ":1",
					"https://" + hh + "#frag", "https://" + hh + "?q=1", "https://" + hh + "/#frag", "https://" + hh + ":443#f", "https://user:pw@" + hh + ":1/p", "https://" + hh + "/", "//" + hh, "https://" + hh + "#"} {
					if strings.Contains(h, ":") && strings.Contains(cl, "sub.") || strings.Contains(h, ":") && strings.Contains(cl, "a.b.") {
						continue
					}
					if strings.ContainsAny(h, " ") {
						continue
					}
					run(c, "origin.placements", rp, cl, nil)
				}
				// the RP host inside an otherwise foreign URL: never acceptable
				for _, cl := range []string{"https://evil.com/" + hh, "https://evil.com?" + hh, "https://evil.com#" + hh, "https://" + hh + "@evil.com", "https://" + hh + ":x@evil.com",
					"https://evil" + hh, "https://" + hh + ".evil.com", "https://" + hh + "evil.com", "https://evil.com/https://" + hh, "https://evil.com/." + hh, "https://evil.com#." + hh,
					"https://x.evil" + hh, "https://a.b.not" + hh, "https://login.evil" + hh + ":8443", "https://x.y.z" + hh, "https://." + "evil" + hh, "https://x.evil" + hh + "/" + hh} {
					if strings.ContainsAny(h, " :") || h == "com" {
						continue
					}
					run(c, "origin.placements", rp, cl, &f)
				}
				// origins that do not parse as a URL at all, whose TEXT nevertheless ends with "." + the RP host (or is the RP host after a
				// dot): an invalid escape, a port that is not a number, an unclosed bracket, a leading blank, a control character. An origin
				// that cannot be parsed has no host: never acceptable
				if !strings.ContainsAny(h, " :") {
					for _, cl := range []string{"https://evil.org/%zz." + h, "https://evil.org:port." + h, "https://evil.org\x7f." + h, "http://[evil." + h, " https://evil.org/." + h,
						"https://evil.org/%." + h, "https://evil.org:80a." + h, "https://%zz." + h, "https://evil.org\x00." + h, "https://evil.org/\n." + h, "http://[::1." + h, "://." + h, "%zz." + h,
						"https://evil.org:-1." + h, "https://a b." + h} {
						run(c, "origin.placements", rp, cl, &f)
					}
				}
				// the RP host in another letter case, and with the two non-ASCII characters that Unicode case folding equates with ASCII letters
				// (U+212A KELVIN SIGN ~ k, U+017F LONG S ~ s): other hosts, never acceptable
				if !strings.ContainsAny(h, " :") && strings.ToUpper(h) != h {
					for _, v := range []string{strings.ToUpper(h), strings.ToUpper(h[:1]) + h[1:], strings.Replace(h, "k", "\u212a", 1), strings.Replace(h, "s", "\u017f", 1),
						strings.Replace(h, "e", "E", 1)} {
						if v != h {
							run(c, "origin.placements", rp, "https://"+v, &f)
							run(c, "origin.placements", rp, "https://login."+v+":8443", &f)
						}
					}
				}
				// parent / sibling
				if i := strings.Index(h, "."); i > 0 && !strings.Contains(h, ":") && h[len(h)-1] != '.' && !(h[0] >= '0' && h[0] <= '9') {
					run(c, "origin.placements", rp, "https://"+h[i+1:], &f)
					run(c, "origin.placements", rp, "https://sibling."+h[i+1:], &f)
				}
				for _, cl := range []string{"", "null", "https://", "://", "%zz", "https://[::1", "file:///" + hh, "data:text/html," + hh, "about:blank", "javascript:alert(1)", hh} {
					run(c, "origin.placements", rp, cl, nil)
				}
			}
			// exact truths
			run(c, "origin.placements", "https://example.com", "https://example.com", &t)
			run(c, "origin.placements", "https://example.com", "https://login.example.com:8443", &t)
			run(c, "origin.placements", "https://example.com", "http://example.com", &t)
			run(c, "origin.placements", "https://login.example.com", "https://example.com", &f)
			run(c, "origin.placements", "https://example.com", "https://notexample.com", &f)
			run(c, "origin.placements", "https://example.com", "https://example.com.evil.com", &f)
			run(c, "origin.placements", "https://example.com", "", &f)
		}},
		Stream{"origin.random", func(c *Ctx) {
			n := c.N(3000, 150000)
			parts := []string{"a", "b", "example", "com", ".", "..", ":", "/", "@", "?", "#", "[", "]", "https://", "http://", "x", "8443", "%2e", "EXAMPLE", " ", "\t", "\\"}
			for i := 0; i < n; i++ {
				mk := func() string {
					var sb strings.Builder
					if c.R.P(3, 4) {
						sb.WriteString("https://")
					}
					for k := 0; k < 1+c.R.Intn(6); k++ {
						sb.WriteString(pick(c.R, parts))
					}
					return sb.String()
				}
				rp := pick(c.R, rpOrigins)
				if c.R.P(1, 4) {
					rp = mk()
				}
				run(c, "origin.random", rp, mk(), nil)
			}
		}},
		Stream{"rpid.hash", func(c *Ctx) {
			for _, rp := range []string{"https://example.com", "https://login.example.com:8443", "https://[2001:db8::1]:8443", "http://localhost:3000", "https://EXAMPLE.com"} {
				h := hostOf(rp)
				for _, hashed := range []string{h, rp, h + ".", "." + h, strings.ToUpper(h), strings.ToLower(h), "sub." + h, h + ":8443", "", "https://" + h} {
					exp := hashed == h
					op := M{"op": "rpid.hash", "rp": hx([]byte(rp)), "hashed": hx([]byte(hashed)), "_expect": exp}
					executors["rpid.hash"](c, "rpid.hash", op)
				}
			}
		}},
		Stream{"origin.walk", func(c *Ctx) {
			// the label walk alone (model = Go loop transcription = any-suffix formulation), on raw host strings incl. odd bytes
			n := c.N(2000, 100000)
			parts := []string{"a", "b", ".", "..", "example", "com", "", "\x00", "é"}
			for i := 0; i < n; i++ {
				mk := func() string {
					var sb strings.Builder
					for k := 0; k < c.R.Intn(6); k++ {
						sb.WriteString(pick(c.R, parts))
					}
					return sb.String()
				}
				cl, rp := mk(), mk()
				m := c.Call(M{"op": "origin.walk", "client": hx([]byte(cl)), "rp": hx([]byte(rp))})
				// Go reference of the loop, restated locally (strings.Index semantics)
				ref := func(client, rph string) bool {
					for client != "" {
						if client == rph {
							return true
						}
						if idx := strings.Index(client, "."); idx >= 0 {
							client = client[idx+1:]
						} else {
							return false
						}
					}
					return false
				}(cl, rp)
				c.Compare("origin.walk", M{"op": "origin.walk", "client": hx([]byte(cl)), "rp": hx([]byte(rp))}, M{"match": ref, "loop": ref}, M{"match": m["match"], "loop": m["loop"]}, fmt.Sprint(ref), true)
			}
		}},
	)
}
