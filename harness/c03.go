package main

import (
	"encoding/base64"
	"fmt"
	"strings"

	"github.com/google/go-tpm/legacy/tpm2"
)

// C03: the statement binds the exact authenticator data and client-data hash.
func init() {
	flipBit := func(b []byte, i int) []byte {
		out := append([]byte{}, b...)
		out[i/8] ^= 1 << uint(i%8)
		return out
	}
	signedFormats := []string{"packed-self", "packed-x5c", "fido-u2f", "tpm", "android-key", "android-safetynet", "apple"}
	register("C03",
		Stream{"bind.authData", func(c *Ctx) {
			r := c.R
			reps := c.N(1, 4)
			for rep := 0; rep < reps; rep++ {
				for _, f := range signedFormats {
					for _, ca := range credAlgsFor(f) {
						if !c.Thorough() && r.P(2, 3) && len(credAlgsFor(f)) > 2 {
							continue
						}
						idLens := []int{pick(r, []int{0, 1, 16, 255, 256, 1023})}
						if f == "fido-u2f" {
							// the u2f message carries the credential id in the middle: every length class, always
							idLens = []int{pick(r, []int{0, 1, 16}), 255, 256, 320, 400, 1023}
						}
						for _, idLen := range idLens {
							s := newRegSpec(r, f, ca)
							s.AttAlg = pick(r, attAlgsFor(f))
							s.CredID = r.Bytes(idLen)
							b := buildRegistration(r, s)
							honest := b.AttestOp(fmtID(f))
							honest["_expectOK"] = true
							executors["attest"](c, "bind.honest", honest)
							nbits := len(b.AuthData) * 8
							var positions []int
							if c.Thorough() && nbits <= 8*400 {
								for i := 0; i < nbits; i++ {
									positions = append(positions, i)
								}
							} else {
								// field boundaries + a PRNG sample
								for _, by := range []int{0, 31, 32, 33, 36, 37, 52, 53, 54, 55, len(b.AuthData) - 1} {
									if by < len(b.AuthData) {
										positions = append(positions, by*8+r.Intn(8))
									}
								}
								for i := 0; i < c.N(48, 200); i++ {
									positions = append(positions, r.Intn(nbits))
								}
							}
							// covered region for fido-u2f: rpIdHash, credential id, and the key coordinates
							idStart := 55
							idEnd := idStart + len(s.CredID)
							for _, p := range positions {
								mb := *b
								mb.AuthData = flipBit(b.AuthData, p)
								op := mb.AttestOp(fmtID(f))
								op["_dev"] = fmt.Sprintf("flip-authData")
								by := p / 8
								covered := true
								if f == "fido-u2f" {
									covered = by < 32 || (by >= idStart && by < idEnd)
									// coordinates: last 32 bytes (y) and the 32 bytes of x inside the COSE key (fixed-width encoding by the harness)
									keyLen := len(b.AuthData) - idEnd
									if s.Flags&0x80 != 0 {
										keyLen -= len(s.Ext)
									}
									if by >= idEnd+keyLen-32 && by < idEnd+keyLen {
										covered = true // y
									}
									if by >= idEnd+keyLen-32-3-32 && by < idEnd+keyLen-32-3 {
										covered = true // x
									}
								}
								if covered {
									op["_expectOK"] = false
								}
								executors["attest"](c, "bind.authData."+f, op)
							}
						}
					}
				}
			}
		}},
		Stream{"bind.hash", func(c *Ctx) {
			r := c.R
			for _, f := range signedFormats {
				for rep := 0; rep < c.N(2, 12); rep++ {
					s := newRegSpec(r, f, pick(r, credAlgsFor(f)))
					s.AttAlg = pick(r, attAlgsFor(f))
					b := buildRegistration(r, s)
					var positions []int
					if c.Thorough() {
						for i := 0; i < 256; i++ {
							positions = append(positions, i)
						}
					} else {
						for i := 0; i < 32; i++ {
							positions = append(positions, r.Intn(256))
						}
					}
					for _, p := range positions {
						mb := *b
						mb.CDHash = flipBit(b.CDHash, p)
						op := mb.AttestOp(fmtID(f))
						op["_dev"] = "flip-hash"
						op["_expectOK"] = false
						executors["attest"](c, "bind.hash."+f, op)
					}
				}
			}
		}},
		Stream{"bind.element", func(c *Ctx) {
			// every byte of the element that carries the binding: sig, certInfo, pubArea, the JWS, the certificate (nonce / key description)
			r := c.R
			for _, f := range signedFormats {
				for rep := 0; rep < c.N(1, 6); rep++ {
					s := newRegSpec(r, f, pick(r, credAlgsFor(f)))
					s.AttAlg = pick(r, attAlgsFor(f))
					b := buildRegistration(r, s)
					// locate the members of the statement
					n, off := cborReadHead(b.Stmt, 0)
					for i := uint64(0); i < n; i++ {
						ks := off
						off = cborSkip(b.Stmt, off)
						vs := off
						off = cborSkip(b.Stmt, off)
						key := string(b.Stmt[ks+1 : vs])
						if !(key == "sig" || key == "certInfo" || key == "pubArea" || key == "response" || (key == "x5c" && f == "apple")) {
							continue
						}
						_, bodyStart := cborReadHead(b.Stmt, vs)
						if key == "x5c" {
							// first certificate body
							_, inner := cborReadHead(b.Stmt, vs)
							_, bodyStart = cborReadHead(b.Stmt, inner)
							off2 := cborSkip(b.Stmt, inner)
							_ = off2
						}
						end := off
						if key == "x5c" {
							_, inner := cborReadHead(b.Stmt, vs)
							end = cborSkip(b.Stmt, inner)
						}
						step := 1
						if !c.Thorough() && end-bodyStart > 96 {
							step = (end - bodyStart) / 96
						}
						for by := bodyStart; by < end; by += step {
							mb := *b
							mb.Stmt = append([]byte{}, b.Stmt...)
							mb.Stmt[by] ^= 1 << uint(r.Intn(8))
							op := mb.AttestOp(fmtID(f))
							op["_dev"] = "flip-" + key
							// ground truth: the statement must stop verifying when the DECODED content of the binding element changes
							// (a re-spelling that decodes to the same fields — a non-canonical base64url character in the JWS, a TPM2B size
							// prefix that go-tpm does not use — is not a change of the element's content)
							switch key {
							case "sig":
								op["_expectOK"] = false
							case "certInfo", "pubArea":
								if tpmContentChanged(key, b.Stmt[bodyStart:end], mb.Stmt[bodyStart:end]) {
									op["_expectOK"] = false
								}
							case "response":
								if jwsContentChanged(b.Stmt[bodyStart:end], mb.Stmt[bodyStart:end]) {
									op["_expectOK"] = false
								}
							}
							executors["attest"](c, "bind.element."+f+"."+key, op)
						}
					}
				}
			}
		}},
		Stream{"bind.elementAbsent", func(c *Ctx) {
			// the binding element deleted, emptied or retyped (e.g. packed with an empty x5c array, no sig, null certInfo): never verifies
			memberProduct(c, "bind.elementAbsent")
		}},
		Stream{"bind.otherKey", func(c *Ctx) {
			// the binding element produced by a key other than the one the statement presents
			for rep := 0; rep < c.N(3, 60); rep++ {
				for _, f := range []string{"packed-self", "packed-x5c", "fido-u2f", "tpm", "android-key", "android-safetynet"} {
					attestCase(c, "bind.otherKey."+f, f, []string{"sig.otherKey"}, false)
				}
				// TPM: extraData is a proper prefix of the right digest (also the empty one): it binds nothing
				for v := 0; v < 5; v++ {
					attestCaseVar(c, "bind.otherKey.tpm", "tpm", []string{"tpm.extraDataShort"}, false, v)
				}
				// the other formats' binding values likewise: a proper prefix of (or nothing in place of, or more than) the Apple nonce, the
				// SafetyNet nonce, the Keymaster attestation challenge
				for _, fd := range [][2]string{{"apple", "apple.nonceShort"}, {"android-safetynet", "sn.nonceShort"}, {"android-key", "ak.challengeShort"}} {
					for v := 0; v < 2; v++ {
						attestCase(c, "bind.short."+fd[0], fd[0], []string{fd[1]}, v == 1)
					}
				}
				// the signature member followed by more bytes; authenticator data with a tail the signer never saw (formats that sign the
				// whole authenticator data)
				for _, f := range []string{"packed-self", "packed-x5c", "fido-u2f", "tpm", "android-key"} {
					attestCase(c, "bind.short."+f, f, []string{"sig.trailingBytes"}, false)
				}
				for _, f := range []string{"packed-self", "packed-x5c", "android-key"} {
					attestCase(c, "bind.short."+f, f, []string{"ad.trailingUnsigned"}, false)
				}
				// fido-u2f signs 32 bytes per coordinate: a credential key with longer coordinates (P-384, P-521) would leave their low-order
				// bytes outside the signature, so such a statement must not verify at all
				for v := 0; v < 2; v++ {
					attestCase(c, "bind.short.fido-u2f", "fido-u2f", []string{"u2f.credWiderCurve"}, v == 1)
					attestCase(c, "bind.short.fido-u2f", "fido-u2f", []string{"u2f.coordOversize"}, v == 1)
					attestCase(c, "bind.short.fido-u2f", "fido-u2f", []string{"u2f.dupCoordinates"}, v == 1)
				}
				{
					// the same shown as a bit flip: the statement made for one key, presented with the last bit of y changed
					r := c.R
					s := newRegSpec(r, "fido-u2f", algES256)
					s.AttAlg = algES256
					s.Dev["u2f.credWiderCurve"] = true
					b := buildRegistration(r, s)
					mb := *b
					last := len(b.AuthData) - 1
					if s.Flags&0x80 != 0 {
						last -= len(s.Ext)
					}
					mb.AuthData = flipBit(b.AuthData, last*8+7)
					op := mb.AttestOp(fmtID("fido-u2f"))
					op["_dev"] = "u2f.credWiderCurve+flip-last-bit-of-y"
					op["_expectOK"] = false
					executors["attest"](c, "bind.short.fido-u2f", op)
				}
				// the statement presents x5c[0]; the signature was made by the key of a LATER chain element (honest leaf placed second)
				for _, f := range []string{"packed-x5c", "tpm", "android-key", "apple"} {
					attestCase(c, "bind.otherKey."+f, f, []string{"x5c.leafSecond"}, false)
				}
			}
		}},
	)
}

// tpmContentChanged: do the two byte strings decode (go-tpm) to different structures? Undecodable counts as changed.
func tpmContentChanged(key string, a, b []byte) bool {
	re := func(x []byte) (out []byte, ok bool) {
		defer func() {
			if recover() != nil {
				ok = false
			}
		}()
		if key == "certInfo" {
			ad, err := tpm2.DecodeAttestationData(x)
			if err != nil {
				return nil, false
			}
			e, err := ad.Encode()
			return e, err == nil
		}
		p, err := tpm2.DecodePublic(x)
		if err != nil {
			return nil, false
		}
		e, err := p.Encode()
		return e, err == nil
	}
	ea, oka := re(a)
	eb, okb := re(b)
	return !oka || !okb || string(ea) != string(eb)
}

// jwsContentChanged: do the three segments of the compact JWS decode (leniently, as Go's RawURLEncoding does) to different bytes?
func jwsContentChanged(a, b []byte) bool {
	sa, sb := strings.Split(string(a), "."), strings.Split(string(b), ".")
	if len(sa) != 3 || len(sb) != 3 {
		return true
	}
	for i := 0; i < 3; i++ {
		da, ea := base64.RawURLEncoding.DecodeString(sa[i])
		db, eb := base64.RawURLEncoding.DecodeString(sb[i])
		if ea != nil || eb != nil || string(da) != string(db) {
			return true
		}
	}
	return false
}
