package main

import (
	"crypto"
	"crypto/ecdsa"
	"crypto/ed25519"
	"crypto/elliptic"
	"crypto/rand"
	"crypto/rsa"
	"crypto/x509"
	"fmt"
)

// Correspondence of Model/X509Sig.lean (`checkPlan`: which primitive crypto/x509's CheckSignature uses for a signature algorithm and
// a kind of key) with (*x509.Certificate).CheckSignature, for every signature algorithm id 0..17 x every key kind (RSA, P-256, P-384,
// P-521, P-224 = a key the certificate view does not describe, Ed25519) x signatures made with every primitive the key can make.

func init() {
	executors["x509.checkSig"] = func(c *Ctx, stream string, op M) {
		der := unhx(op["der"].(string))
		alg := int(num(op["alg"]))
		msg, sig := unhx(op["msg"].(string)), unhx(op["sig"].(string))
		cert, err := x509.ParseCertificate(der)
		if err != nil {
			panic(err)
		}
		km := keyMat(cert.PublicKey)
		plan := c.Call(M{"op": "x509.checkPlan", "alg": alg, "key": km, "sig": op["sig"]})
		impl := guard(func() M { return M{"ok": cert.CheckSignature(x509.SignatureAlgorithm(alg), msg, sig) == nil} })
		model := M{}
		class := fmt.Sprint(plan["plan"])
		switch plan["plan"] {
		case "primitive":
			model["ok"] = sigVerify(plan["scheme"].(string), crypto.Hash(int(num(plan["hash"]))), km, msg, unhx(plan["sig"].(string)))
			class += "/" + plan["scheme"].(string)
		case "reject":
			model["ok"] = false
		default:
			// a key of a kind the view does not describe: the model asks crypto/x509 itself; nothing to compare
			c.Unmodelled(stream)
			return
		}
		if dv, ok := op["_dev"].(string); ok {
			class += "/" + dv
		}
		c.Compare(stream, op, impl, model, fmt.Sprintf("%s/ok=%v", class, impl["ok"]), true)
	}
	stream := Stream{"x509.checkSig", func(c *Ctx) {
		r := c.R
		n := c.N(2, 40)
		for round := 0; round < n; round++ {
			type kk struct {
				name string
				pub  crypto.PublicKey
				sign func(h crypto.Hash, msg []byte) map[string][]byte
			}
			rsaK := genKeyPair(r, algRS256)
			p224, _ := ecdsa.GenerateKey(elliptic.P224(), rand.Reader)
			ecSign := func(k *ecdsa.PrivateKey) func(h crypto.Hash, msg []byte) map[string][]byte {
				return func(h crypto.Hash, msg []byte) map[string][]byte {
					if h == 0 {
						h = crypto.SHA256
					}
					der, _ := ecdsa.SignASN1(rand.Reader, k, digestFor(h, msg))
					rr, ss, _ := ecdsa.Sign(rand.Reader, k, digestFor(h, msg))
					size := (k.Curve.Params().BitSize + 7) / 8
					return map[string][]byte{"der": der, "raw": append(fixed(rr, size), fixed(ss, size)...), "der+1": append(append([]byte{}, der...), 0)}
				}
			}
			keys := []kk{
				{"rsa", rsaK.Public(), func(h crypto.Hash, msg []byte) map[string][]byte {
					if h == 0 {
						h = crypto.SHA256
					}
					out := map[string][]byte{}
					out["pkcs1"], _ = rsa.SignPKCS1v15(rand.Reader, rsaK.RSA, h, digestFor(h, msg))
					out["pss-eq"], _ = rsa.SignPSS(rand.Reader, rsaK.RSA, h, digestFor(h, msg), &rsa.PSSOptions{SaltLength: rsa.PSSSaltLengthEqualsHash})
					out["pss-0"], _ = rsa.SignPSS(rand.Reader, rsaK.RSA, h, digestFor(h, msg), &rsa.PSSOptions{SaltLength: 0})
					out["pss-max"], _ = rsa.SignPSS(rand.Reader, rsaK.RSA, h, digestFor(h, msg), &rsa.PSSOptions{SaltLength: rsa.PSSSaltLengthAuto})
					return out
				}},
			}
			for crv := 1; crv <= 3; crv++ {
				k := genKeyPairOnCurve(r, []int{0, algES256, algES384, algES512}[crv], crv, false)
				keys = append(keys, kk{fmt.Sprintf("ec%d", crv), k.Public(), ecSign(k.EC)})
			}
			keys = append(keys, kk{"p224", &p224.PublicKey, ecSign(p224)})
			edK := genKeyPair(r, algEdDSA)
			keys = append(keys, kk{"ed", edK.Public(), func(h crypto.Hash, msg []byte) map[string][]byte {
				out := map[string][]byte{"ed": ed25519.Sign(edK.Ed, msg)}
				if h != 0 {
					out["ed-prehashed"] = ed25519.Sign(edK.Ed, digestFor(h, msg))
				}
				return out
			}})
			hashOfAlg := map[int]crypto.Hash{2: crypto.MD5, 3: crypto.SHA1, 4: crypto.SHA256, 5: crypto.SHA384, 6: crypto.SHA512, 7: crypto.SHA1, 8: crypto.SHA256,
				9: crypto.SHA1, 10: crypto.SHA256, 11: crypto.SHA384, 12: crypto.SHA512, 13: crypto.SHA256, 14: crypto.SHA384, 15: crypto.SHA512}
			for _, k := range keys {
				der := makeCert(k.pub, CertSpec{})
				for alg := 0; alg <= 17; alg++ {
					msg := r.Bytes(1 + r.Intn(40))
					h := hashOfAlg[alg]
					if h != 0 && !h.Available() {
						h = crypto.SHA256
					}
					sigs := k.sign(h, msg)
					sigs["empty"], sigs["random"] = []byte{}, r.Bytes(64)
					for _, name := range sortedKeys(sigs) {
						executors["x509.checkSig"](c, "x509.checkSig", M{"op": "x509.checkSig", "der": hx(der), "alg": alg, "msg": hx(msg), "sig": hx(sigs[name]),
							"_dev": fmt.Sprintf("%s/alg%d/%s", k.name, alg, name)})
					}
				}
			}
		}
	}}
	register("C03", stream)
	register("C04", stream)
}

func sortedKeys(m map[string][]byte) []string {
	out := make([]string, 0, len(m))
	for k := range m {
		out = append(out, k)
	}
	for i := 1; i < len(out); i++ {
		for j := i; j > 0 && out[j] < out[j-1]; j-- {
			out[j], out[j-1] = out[j-1], out[j]
		}
	}
	return out
}
