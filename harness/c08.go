package main

import (
	"fmt"
	"strings"
)

var sevenFormats = []string{"android-key", "android-safetynet", "apple", "fido-u2f", "none", "packed", "tpm"}
var sixTypes = []string{"Basic", "Self", "AttCA", "AnonCA", "None", "Unknown"}

func subsetOf(xs []string, mask int) []string {
	out := []string{}
	for i, x := range xs {
		if mask&(1<<uint(i)) != 0 {
			out = append(out, hx([]byte(x)))
		}
	}
	return out
}

func init() {
	executors["config"] = func(c *Ctx, stream string, op M) {
		// the effective configuration is not observable directly; it is observed through ceremonies (register executor).
	}
	// pre-built honest registrations per format variant, re-used under every configuration
	type prebuilt struct {
		format string
		b      *RegBuilt
	}
	build := func(c *Ctx) []prebuilt {
		var out []prebuilt
		for _, f := range allFormats {
			s := newRegSpec(c.R, f, pick(c.R, credAlgsFor(f)))
			s.AttAlg = pick(c.R, attAlgsFor(f))
			out = append(out, prebuilt{f, buildRegistration(c.R, s)})
		}
		return out
	}
	runCfg := func(c *Ctx, stream string, p prebuilt, opts []M, expect *bool) {
		op := p.b.Op()
		op["verifyOpts"] = opts
		op["_dev"] = "cfg"
		executors["register"](c, stream, op)
		if expect != nil {
			truth(c, stream+".truth", op, *expect)
		}
	}
	contains := func(set []string, x string) bool {
		for _, s := range set {
			if s == hx([]byte(x)) {
				return true
			}
		}
		return false
	}
	register("C08",
		Stream{"cfg.subsets", func(c *Ctx) {
			pre := build(c)
			if c.Thorough() {
				for fm := 0; fm < 128; fm++ {
					for tm := 0; tm < 64; tm++ {
						fs, ts := subsetOf(sevenFormats, fm), subsetOf(sixTypes, tm)
						for _, p := range pre {
							exp := contains(fs, fmtID(p.format)) && contains(ts, expectedType[p.format])
							runCfg(c, "cfg.subsets", p, []M{{"formats": fs}, {"types": ts}}, &exp)
						}
					}
				}
				c.Res.mu.Lock()
				c.Res.Exhaustive = append(c.Res.Exhaustive, "all 2^7 x 2^6 (formats, types) subset pairs x 8 honest format variants")
				c.Res.mu.Unlock()
				return
			}
			for i := 0; i < 400; i++ {
				fm, tm := c.R.Intn(128), c.R.Intn(64)
				switch i % 10 {
				case 0:
					fm = 0
				case 1:
					tm = 0
				case 2:
					fm, tm = 127, 63
				}
				fs, ts := subsetOf(sevenFormats, fm), subsetOf(sixTypes, tm)
				p := pre[i%len(pre)]
				exp := contains(fs, fmtID(p.format)) && contains(ts, expectedType[p.format])
				runCfg(c, "cfg.subsets", p, []M{{"formats": fs}, {"types": ts}}, &exp)
			}
		}},
		Stream{"cfg.edges", func(c *Ctx) {
			// every honest format variant under the policies at the edge of admitting it: its own type (format) alone, its type with one
			// other, everything but its type (format) — with and without the other kind of option, and in option lists where a later
			// option replaces an earlier one
			pre := build(c)
			all7, all6 := subsetOf(sevenFormats, 127), subsetOf(sixTypes, 63)
			yes, no := true, false
			for _, p := range pre {
				ty, fm := expectedType[p.format], fmtID(p.format)
				only := func(xs []string, x string) []string { return []string{hx([]byte(x))} }
				without := func(xs []string, x string) []string {
					out := []string{}
					for _, y := range xs {
						if y != x {
							out = append(out, hx([]byte(y)))
						}
					}
					return out
				}
				runCfg(c, "cfg.edges", p, []M{{"types": only(sixTypes, ty)}}, &yes)
				runCfg(c, "cfg.edges", p, []M{{"formats": only(sevenFormats, fm)}}, &yes)
				runCfg(c, "cfg.edges", p, []M{{"formats": only(sevenFormats, fm)}, {"types": only(sixTypes, ty)}}, &yes)
				runCfg(c, "cfg.edges", p, []M{{"types": only(sixTypes, ty)}, {"formats": all7}}, &yes)
				runCfg(c, "cfg.edges", p, []M{{"types": without(sixTypes, ty)}}, &no)
				runCfg(c, "cfg.edges", p, []M{{"formats": without(sevenFormats, fm)}}, &no)
				runCfg(c, "cfg.edges", p, []M{{"formats": without(sevenFormats, fm)}, {"types": all6}}, &no)
				for _, other := range sixTypes {
					if other != ty {
						runCfg(c, "cfg.edges", p, []M{{"types": []string{hx([]byte(other)), hx([]byte(ty))}}}, &yes)
						runCfg(c, "cfg.edges", p, []M{{"types": only(sixTypes, other)}}, &no)
						// a later option replaces an earlier one, in both directions
						runCfg(c, "cfg.edges", p, []M{{"types": only(sixTypes, other)}, {"types": only(sixTypes, ty)}}, &yes)
						runCfg(c, "cfg.edges", p, []M{{"types": only(sixTypes, ty)}, {"types": only(sixTypes, other)}}, &no)
					}
				}
			}
		}},
		Stream{"cfg.creationOptions", func(c *Ctx) {
			// the policy is the verify options and nothing else: whatever the creation options said to the CLIENT (attestation conveyance
			// preference, authenticator attachment, resident key), without options all seven formats and all six types are admitted, and
			// with options exactly the sets given
			yes := true
			for rep := 0; rep < c.N(1, 6); rep++ {
				for _, f := range allFormats {
					for _, pref := range []string{"", "none", "indirect", "direct", "enterprise", "Direct", "required"} {
						s := newRegSpec(c.R, f, pick(c.R, credAlgsFor(f)))
						s.AttAlg = pick(c.R, attAlgsFor(f))
						s.Inert = inertOptions(c.R, s.Origin)
						s.Inert["attestation"] = hx([]byte(pref))
						s.Inert["selection"] = M{"attachment": hx([]byte(pick(c.R, []string{"", "platform", "cross-platform"}))), "residentKey": hx([]byte(pick(c.R, []string{"", "discouraged", "preferred", "required"}))), "requireResidentKey": c.R.Bool()}
						if c.R.Bool() {
							uv := pick(c.R, []string{"preferred", "discouraged", ""})
							s.AuthSelUV = &uv
						}
						p := prebuilt{f, buildRegistration(c.R, s)}
						runCfg(c, "cfg.creationOptions", p, nil, &yes)
						runCfg(c, "cfg.creationOptions", p, []M{{"formats": subsetOf(sevenFormats, 127)}}, &yes)
						runCfg(c, "cfg.creationOptions", p, []M{{"types": []string{hx([]byte(expectedType[f]))}}}, &yes)
					}
				}
			}
		}},
		Stream{"cfg.optionLists", func(c *Ctx) {
			// repeated options in any order, duplicates and unknown names inside a set: the last option of a kind decides
			pre := build(c)
			n := c.N(300, 20000)
			for i := 0; i < n; i++ {
				var opts []M
				var lastF, lastT []string
				hasF, hasT := false, false
				for k := 0; k < c.R.Intn(5); k++ {
					if c.R.Bool() {
						fs := subsetOf(sevenFormats, c.R.Intn(128))
						if c.R.P(1, 3) {
							fs = append(fs, hx([]byte(pick(c.R, []string{"PACKED", "none ", "", "tpm2", "fido-u2f"}))))
						}
						if c.R.P(1, 3) && len(fs) > 0 {
							fs = append(fs, fs[0])
						}
						opts = append(opts, M{"formats": fs})
						lastF, hasF = fs, true
					} else {
						ts := subsetOf(sixTypes, c.R.Intn(64))
						if c.R.P(1, 3) {
							ts = append(ts, hx([]byte(pick(c.R, []string{"basic", "NONE", "", "Attca"}))))
						}
						opts = append(opts, M{"types": ts})
						lastT, hasT = ts, true
					}
				}
				p := pre[c.R.Intn(len(pre))]
				exp := (!hasF || contains(lastF, fmtID(p.format))) && (!hasT || contains(lastT, expectedType[p.format]))
				runCfg(c, "cfg.optionLists", p, opts, &exp)
			}
		}},
		Stream{"cfg.fullSizeSets", func(c *Ctx) {
			// sets that are as LARGE as the complete set without being it: one registered name left out, an unregistered one in its place
			// (with and without duplicates, as the last option of its kind)
			pre := build(c)
			odd := []string{"compound", "ECDAA", "basic", "NONE", "none ", "", "packed2"}
			for fi, f := range sevenFormats {
				fs := []string{}
				for j, g := range sevenFormats {
					if j != fi {
						fs = append(fs, hx([]byte(g)))
					}
				}
				fs = append(fs, hx([]byte(pick(c.R, odd))))
				for _, p := range pre {
					exp := fmtID(p.format) != f
					runCfg(c, "cfg.fullSizeSets", p, []M{{"formats": fs}}, &exp)
					runCfg(c, "cfg.fullSizeSets", p, []M{{"formats": subsetOf(sevenFormats, 127)}, {"formats": append(append([]string{}, fs...), fs[0])}}, &exp)
				}
			}
			for ti, t := range sixTypes {
				ts := []string{}
				for j, g := range sixTypes {
					if j != ti {
						ts = append(ts, hx([]byte(g)))
					}
				}
				ts = append(ts, hx([]byte(pick(c.R, odd))))
				for _, p := range pre {
					exp := expectedType[p.format] != t
					runCfg(c, "cfg.fullSizeSets", p, []M{{"types": ts}}, &exp)
				}
			}
		}},
		Stream{"cfg.unknownFmt", func(c *Ctx) {
			// arbitrary fmt strings patched into an otherwise honest attestation object: rejected under every configuration
			pre := build(c)
			var names []string
			for _, f := range sevenFormats {
				names = append(names, strings.ToUpper(f), f+" ", " "+f, f[:len(f)-1], f+"x", strings.Title(f), f+"\x00")
			}
			names = append(names, "", "é", "none ", "nоne" /* cyrillic o */, "packed2", "fido_u2f", "android", "safetynet", "NONE", "None", "null")
			cfgs := [][]M{nil, {{"formats": subsetOf(sevenFormats, 127)}}, {{"formats": []string{}}}, {{"types": subsetOf(sixTypes, 63)}}}
			for _, name := range names {
				for ci, cfg := range cfgs {
					p := pre[c.R.Intn(len(pre))]
					b := *p.b
					b.FmtText = name
					op := b.Op()
					if cfg != nil {
						// also allow the odd name itself explicitly: it must still be rejected
						if ci == 1 {
							cfg = []M{{"formats": append(subsetOf(sevenFormats, 127), hx([]byte(name)))}}
						}
						op["verifyOpts"] = cfg
					}
					op["_dev"] = fmt.Sprintf("fmt=%q", name)
					executors["register"](c, "cfg.unknownFmt", op)
					truth(c, "cfg.unknownFmt.truth", op, false)
				}
			}
			// no fmt member at all, or one that is not a text string: there is no default format
			for ci, cfg := range cfgs {
				for _, p := range pre {
					b := *p.b
					stmt, ad := [][]byte{cborText("attStmt"), b.Stmt}, [][]byte{cborText("authData"), cborBytes(b.AuthData)}
					shapes := map[string][]byte{
						"absent":             cborMap(stmt[0], stmt[1], ad[0], ad[1]),
						"null":               cborMap(cborText("fmt"), []byte{0xf6}, stmt[0], stmt[1], ad[0], ad[1]),
						"undefined":          cborMap(stmt[0], stmt[1], cborText("fmt"), []byte{0xf7}, ad[0], ad[1]),
						"int":                cborMap(cborText("fmt"), cborInt(0), stmt[0], stmt[1], ad[0], ad[1]),
						"bytes":              cborMap(cborText("fmt"), cborBytes([]byte(b.FmtText)), stmt[0], stmt[1], ad[0], ad[1]),
						"onlyFmtCaseVariant": cborMap(cborText("FMT "), cborText(b.FmtText), stmt[0], stmt[1], ad[0], ad[1]),
					}
					for _, name := range []string{"absent", "null", "undefined", "int", "bytes", "onlyFmtCaseVariant"} {
						op := b.Op()
						op["attObj"] = hx(shapes[name])
						if cfg != nil {
							op["verifyOpts"] = cfg
						}
						op["_dev"] = fmt.Sprintf("fmt-member=%s/cfg%d", name, ci)
						executors["register"](c, "cfg.unknownFmt", op)
						truth(c, "cfg.unknownFmt.truth", op, false)
					}
				}
			}
		}},
	)
}
