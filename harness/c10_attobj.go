package main

import (
	"fmt"
	"sort"

	"github.com/pomerium/webauthn"
)

// C10, last sentence: UnmarshalAttestationObject yields exactly the fmt, authData and attStmt members of the CBOR map and
// the bytes following it.  The Lean side is Cbor/AttObj.lean (`unmarshalAttestationObject`); the object may carry any
// further members (text or integer keys), members in any order, repeated members, and trailing bytes.

func init() {
	executors["attObj.unmarshal"] = func(c *Ctx, stream string, op M) {
		raw := unhx(op["data"].(string))
		model := c.Call(M{"op": "attObj.unmarshal", "data": op["data"]})
		if um, _ := model["unmodelled"].(bool); um {
			c.Unmodelled(stream)
			return
		}
		delete(model, "id")
		if ks, ok := model["stmtKeys"].([]any); ok {
			model["stmtKeys"] = sortedUnique(ks)
		}
		impl := guard(func() M {
			o, rest, err := webauthn.UnmarshalAttestationObject(raw)
			if err != nil {
				return M{"ok": false}
			}
			keys := []any{}
			for k := range o.Statement {
				keys = append(keys, hx([]byte(k)))
			}
			return M{"ok": true, "fmt": hx([]byte(o.Format)), "authData": hx(o.AuthData), "rest": hx(rest), "stmtKeys": sortedUnique(keys),
				"alg": int64(o.Statement.GetAlgorithm()), "sig": hx(o.Statement.GetSignature())}
		})
		class := "reject"
		if ok, _ := impl["ok"].(bool); ok {
			class = "accept"
		}
		if dv, ok := op["_dev"].(string); ok {
			class += "/" + dv
		}
		c.Compare(stream, op, impl, model, class, len(raw) > 1)
	}

	// the three members of an honest object, as encoded key / value pairs
	members := func(r *RNG) [][2][]byte {
		f := pick(r, allFormats)
		s := newRegSpec(r, f, pick(r, credAlgsFor(f)))
		s.AttAlg = pick(r, attAlgsFor(f))
		b := buildRegistration(r, s)
		return [][2][]byte{{cborText("fmt"), cborText(b.FmtText)}, {cborText("attStmt"), b.Stmt}, {cborText("authData"), cborBytes(b.AuthData)}}
	}
	extraKey := func(r *RNG) []byte {
		switch r.Intn(8) {
		case 0:
			return cborInt(int64(r.Intn(64)) - 32)
		case 1:
			return cborText(pick(r, []string{"Fmt", "FMT", "authdata", "AuthData", "attstmt", "ATTSTMT", "fmt ", ""})) // case variants of the members
		case 2:
			return cborInt(pick(r, []int64{1 << 40, -(1 << 40), 9223372036854775807, -9223372036854775807 - 1}))
		default:
			return cborText(pick(r, []string{"epAtt", "largeBlobKey", "x", "ver", "alg", "sig", "x5c", "unknown-member", "fmt2"}))
		}
	}
	encode := func(kvs [][2][]byte) []byte {
		flat := [][]byte{}
		for _, kv := range kvs {
			flat = append(flat, kv[0], kv[1])
		}
		return cborMap(flat...)
	}

	register("C10",
		Stream{"attObj.members", func(c *Ctx) {
			n := c.N(1500, 60000)
			for i := 0; i < n; i++ {
				r := c.R
				kvs := members(r)
				dev := "three"
				switch i % 8 {
				case 1, 2, 3: // further members anywhere in the map
					dev = "extra"
					for k := 1 + r.Intn(3); k > 0; k-- {
						kv := [2][]byte{extraKey(r), genCBOR(r, 2, false)}
						at := r.Intn(len(kvs) + 1)
						kvs = append(kvs[:at], append([][2][]byte{kv}, kvs[at:]...)...)
					}
				case 4: // a member is missing
					dev = "missing"
					at := r.Intn(len(kvs))
					kvs = append(kvs[:at], kvs[at+1:]...)
				case 5: // a member is repeated with another value
					dev = "repeated"
					at := r.Intn(len(kvs))
					other := members(r)[at]
					if r.Bool() {
						kvs = append(kvs, other)
					} else {
						kvs = append([][2][]byte{other}, kvs...)
					}
				case 7: // many further members (in the object or in the statement)
					dev = "many"
					cnt := pick(r, []int{17, 33, 100, 300})
					if r.Bool() {
						for k := 0; k < cnt; k++ {
							kvs = append(kvs, [2][]byte{cborText(fmt.Sprintf("member%d", k)), cborInt(int64(k))})
						}
					} else {
						flat := [][]byte{}
						for k := 0; k < cnt; k++ {
							flat = append(flat, cborText(fmt.Sprintf("entry%d", k)), cborInt(int64(k)))
						}
						for i := range kvs {
							if string(kvs[i][0]) == string(cborText("attStmt")) {
								kvs[i][1] = cborMap(flat...)
							}
						}
					}
				case 6: // a member of another CBOR type
					dev = "mistyped"
					at := r.Intn(len(kvs))
					kvs[at][1] = pick(r, [][]byte{{0xf6}, {0xf7}, cborInt(1), cborText("none"), cborBytes([]byte("none")), cborArray(cborInt(1), cborInt(2)), cborMap(), {0xf4}})
				}
				kvs = permute(r, kvs)
				b := encode(kvs)
				if r.P(1, 3) {
					b = append(b, r.Bytes(1+r.Intn(6))...)
				}
				executors["attObj.unmarshal"](c, "attObj.members", M{"op": "attObj.unmarshal", "data": hx(b), "_dev": dev})
			}
		}},
		Stream{"attObj.prefixes", func(c *Ctx) {
			n := c.N(40, 1500)
			for i := 0; i < n; i++ {
				b := encode(members(c.R))
				if len(b) > c.N(600, 4096) {
					continue
				}
				for k := 0; k < len(b); k++ {
					executors["attObj.unmarshal"](c, "attObj.prefixes", M{"op": "attObj.unmarshal", "data": hx(b[:k]), "_dev": "prefix"})
				}
			}
		}},
		Stream{"attObj.mutated", func(c *Ctx) {
			n := c.N(1500, 80000)
			for i := 0; i < n; i++ {
				var b []byte
				if i%4 == 0 {
					b = genCBOR(c.R, 3, true) // any CBOR item in place of the object
				} else {
					b = mutate(c.R, encode(members(c.R)))
				}
				executors["attObj.unmarshal"](c, "attObj.mutated", M{"op": "attObj.unmarshal", "data": hx(b), "_dev": "mutated"})
			}
		}},
	)
}

func sortedUnique(xs []any) []any {
	seen := map[string]bool{}
	out := []string{}
	for _, x := range xs {
		s, _ := x.(string)
		if !seen[s] {
			seen[s] = true
			out = append(out, s)
		}
	}
	sort.Strings(out)
	res := make([]any, len(out))
	for i, s := range out {
		res[i] = s
	}
	return res
}
