package main

// answerAsk answers one oracle question of the model by calling the *dependency* named in
// DESIGN §3 directly — never a function of /repo.
func answerAsk(kind string, q M) any {
	switch kind {
	}
	panic("unknown ask " + kind)
}
