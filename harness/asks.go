package main

import (
	"crypto"
	"crypto/ecdsa"
	"crypto/ed25519"
	"crypto/elliptic"
	"crypto/rsa"
	_ "crypto/sha1"
	"crypto/sha256"
	_ "crypto/sha512"
	"crypto/x509"
	"encoding/asn1"
	"encoding/json"
	"math/big"
	"strings"

	jose "github.com/go-jose/go-jose/v3"
	josejson "github.com/go-jose/go-jose/v3/json"
	"github.com/go-jose/go-jose/v3/jwt"
	"github.com/google/go-tpm/legacy/tpm2"
	"github.com/pomerium/webauthn/fido"
)

// answerAsk answers one oracle question of the model by calling the *dependency* named in
// DESIGN §3 directly — never a function of /repo's own logic.
func answerAsk(d *Driver, kind string, q M) any {
	switch kind {
	case "sha256":
		h := sha256.Sum256(unhx(q["data"].(string)))
		return M{"bytes": hx(h[:])}
	case "hash":
		h := crypto.Hash(num(q["hash"]))
		if !h.Available() {
			return nil
		}
		hh := h.New()
		hh.Write(unhx(q["data"].(string)))
		return M{"bytes": hx(hh.Sum(nil))}
	case "sigVerify":
		return M{"bool": sigVerify(q["scheme"].(string), crypto.Hash(num(q["hash"])), q["key"].(M), unhx(q["msg"].(string)), unhx(q["sig"].(string)))}
	case "x509Parse":
		c, err := x509.ParseCertificate(unhx(q["der"].(string)))
		if err != nil {
			return nil
		}
		if sanHasTimeValue(c) {
			d.SawUnmodelled = true
		}
		return certView(c)
	case "x509CheckSig":
		c, err := x509.ParseCertificate(unhx(q["der"].(string)))
		if err != nil {
			return M{"bool": false}
		}
		err = c.CheckSignature(x509.SignatureAlgorithm(num(q["alg"])), unhx(q["msg"].(string)), unhx(q["sig"].(string)))
		return M{"bool": err == nil}
	case "tpmHashes":
		return M{"hashes": tpmHashTable()}
	case "tpmCertInfo":
		ad, err := tpm2.DecodeAttestationData(unhx(q["raw"].(string)))
		if err != nil {
			return nil
		}
		out := M{"magic": int64(ad.Magic), "type": int64(ad.Type), "extraData": hx(ad.ExtraData), "hasCertifyInfo": ad.AttestedCertifyInfo != nil,
			"nameKind": "none", "nameAlg": 0, "nameValue": ""}
		if ad.AttestedCertifyInfo != nil {
			n := ad.AttestedCertifyInfo.Name
			if n.Digest != nil {
				out["nameKind"] = "digest"
				out["nameAlg"] = int64(n.Digest.Alg)
				out["nameValue"] = hx(n.Digest.Value)
			} else if n.Handle != nil {
				out["nameKind"] = "handle"
			}
		}
		if enc, err := safeEncode(func() ([]byte, error) { return ad.Encode() }); err == nil {
			out["encoded"] = hx(enc)
		} else {
			out["encoded"] = nil
		}
		return out
	case "tpmPubArea":
		pub, err := tpm2.DecodePublic(unhx(q["raw"].(string)))
		if err != nil {
			return nil
		}
		out := M{"nameAlg": int64(pub.NameAlg)}
		if k, err := safeKey(pub); err == nil {
			out["key"] = keyMat(k)
		} else {
			out["key"] = nil
		}
		if enc, err := safeEncode(func() ([]byte, error) { return pub.Encode() }); err == nil {
			out["encoded"] = hx(enc)
		} else {
			out["encoded"] = nil
		}
		return out
	case "tpmAlgHash":
		h, err := tpm2.Algorithm(num(q["alg"])).Hash()
		if err != nil {
			return nil
		}
		return M{"nat": int64(h)}
	case "safetyNet":
		return safetyNetView(unhx(q["raw"].(string)))
	case "x509Verify":
		// leaf.Verify against the system roots (the harness CA, see gen_reg.go init) with the named intermediates and DNS name
		leaf, err := x509.ParseCertificate(unhx(q["leaf"].(string)))
		if err != nil {
			return M{"bool": false}
		}
		opts := x509.VerifyOptions{DNSName: string(unhx(q["dns"].(string))), Intermediates: x509.NewCertPool()}
		for _, h := range q["intermediates"].([]any) {
			c, err := x509.ParseCertificate(unhx(h.(string)))
			if err != nil {
				return M{"bool": false}
			}
			opts.Intermediates.AddCert(c)
		}
		chains, err := leaf.Verify(opts)
		return M{"bool": err == nil && len(chains) > 0 && len(chains[0]) > 0}
	case "x509VerifyPool":
		// leaf.Verify(VerifyOptions{Roots: pool, Intermediates}): pool 0 = the default root of fido.GlobalSignRootCAPEM, 1 = nil (system roots), i+2 = i-th custom pool
		leaf, err := x509.ParseCertificate(unhx(q["leaf"].(string)))
		if err != nil {
			return M{"bool": false}
		}
		opts := x509.VerifyOptions{Intermediates: x509.NewCertPool()}
		switch code := int(num(q["pool"])); {
		case code == 0:
			opts.Roots = x509.NewCertPool()
			opts.Roots.AppendCertsFromPEM(fido.GlobalSignRootCAPEM)
		case code == 1:
			opts.Roots = nil
		default:
			if code-2 >= len(d.Pools) {
				return M{"bool": false}
			}
			opts.Roots = d.Pools[code-2]
		}
		for _, h := range q["intermediates"].([]any) {
			c, err := x509.ParseCertificate(unhx(h.(string)))
			if err != nil {
				return M{"bool": false}
			}
			opts.Intermediates.AddCert(c)
		}
		chains, err := leaf.Verify(opts)
		return M{"bool": err == nil && len(chains) > 0 && len(chains[0]) > 0}
	case "blobPayload":
		var payload fido.MetadataBLOBPayload
		if err := josejson.Unmarshal(unhx(q["payload"].(string)), &payload); err != nil {
			return nil
		}
		b, _ := json.Marshal(payload)
		return M{"bytes": hx(b)}
	case "jwsVerify":
		sig, err := jose.ParseSigned(string(unhx(q["raw"].(string))))
		if err != nil {
			return M{"bool": false}
		}
		leaf, err := x509.ParseCertificate(unhx(q["leaf"].(string)))
		if err != nil {
			return M{"bool": false}
		}
		_, err = sig.Verify(leaf.PublicKey)
		return M{"bool": err == nil}
	case "jwsHeaders":
		tok, err := jwt.ParseSigned(string(unhx(q["raw"].(string))))
		if err != nil {
			return nil
		}
		return M{"nat": len(tok.Headers)}
	case "jwsChain":
		tok, err := jwt.ParseSigned(string(unhx(q["raw"].(string))))
		if err != nil {
			return nil
		}
		i := int(num(q["i"]))
		if i >= len(tok.Headers) {
			return nil
		}
		var roots *x509.CertPool
		switch code := int(num(q["pool"])); {
		case code == 0:
			roots = x509.NewCertPool()
			roots.AppendCertsFromPEM(fido.GlobalSignRootCAPEM)
		case code == 1:
			roots = nil
		default:
			if code-2 >= len(d.Pools) {
				return nil
			}
			roots = d.Pools[code-2]
		}
		chains, err := tok.Headers[i].Certificates(x509.VerifyOptions{Roots: roots})
		if err != nil || len(chains) == 0 || len(chains[0]) == 0 {
			return nil
		}
		return M{"bytes": hx(chains[0][0].Raw)}
	case "jwsClaims":
		tok, err := jwt.ParseSigned(string(unhx(q["raw"].(string))))
		if err != nil {
			return nil
		}
		leaf, err := x509.ParseCertificate(unhx(q["leaf"].(string)))
		if err != nil {
			return nil
		}
		var payload fido.MetadataBLOBPayload
		if err := tok.Claims(leaf.PublicKey, &payload); err != nil {
			return nil
		}
		b, _ := json.Marshal(payload)
		return M{"bytes": hx(b)}
	}
	panic("unknown ask " + kind)
}

func safeEncode(f func() ([]byte, error)) (b []byte, err error) {
	defer func() {
		if p := recover(); p != nil {
			err = errPanic
		}
	}()
	return f()
}

type strErr string

func (e strErr) Error() string { return string(e) }

var errPanic = strErr("panic")

func safeKey(pub tpm2.Public) (k crypto.PublicKey, err error) {
	defer func() {
		if p := recover(); p != nil {
			err = errPanic
		}
	}()
	return pub.Key()
}

func curveID(c elliptic.Curve) int {
	switch c {
	case elliptic.P256():
		return 1
	case elliptic.P384():
		return 2
	case elliptic.P521():
		return 3
	}
	return 0
}

func curveByID(id int64) elliptic.Curve {
	switch id {
	case 1:
		return elliptic.P256()
	case 2:
		return elliptic.P384()
	case 3:
		return elliptic.P521()
	}
	return nil
}

// keyMat renders a crypto public key the way the model's KeyMat does (magnitudes without leading zeros).
func keyMat(k crypto.PublicKey) M {
	switch k := k.(type) {
	case *ecdsa.PublicKey:
		if id := curveID(k.Curve); id != 0 && k.X != nil && k.Y != nil {
			return M{"kind": "ec", "crv": id, "x": hx(k.X.Bytes()), "y": hx(k.Y.Bytes())}
		}
	case *rsa.PublicKey:
		if k.N != nil && k.E >= 0 {
			return M{"kind": "rsa", "n": hx(k.N.Bytes()), "e": int64(k.E)}
		}
	case rsa.PublicKey:
		if k.N != nil && k.E >= 0 {
			return M{"kind": "rsa", "n": hx(k.N.Bytes()), "e": int64(k.E)}
		}
	case ed25519.PublicKey:
		return M{"kind": "ed", "k": hx(k)}
	}
	return M{"kind": "other"}
}

func sigVerify(scheme string, h crypto.Hash, key M, msg, sig []byte) (ok bool) {
	defer func() {
		if p := recover(); p != nil {
			ok = false
		}
	}()
	digest := func() []byte {
		hh := h.New()
		hh.Write(msg)
		return hh.Sum(nil)
	}
	switch scheme {
	case "ecdsa":
		if key["kind"] != "ec" || !h.Available() {
			return false
		}
		c := curveByID(num(key["crv"]))
		if c == nil {
			return false
		}
		pub := &ecdsa.PublicKey{Curve: c, X: new(big.Int).SetBytes(unhx(key["x"].(string))), Y: new(big.Int).SetBytes(unhx(key["y"].(string)))}
		return ecdsa.VerifyASN1(pub, digest(), sig)
	case "eddsa":
		if key["kind"] != "ed" {
			return false
		}
		k := unhx(key["k"].(string))
		if len(k) != ed25519.PublicKeySize {
			return false
		}
		return ed25519.Verify(ed25519.PublicKey(k), msg, sig)
	case "pkcs1", "pss", "pssEq":
		if key["kind"] != "rsa" || !h.Available() {
			return false
		}
		pub := &rsa.PublicKey{N: new(big.Int).SetBytes(unhx(key["n"].(string))), E: int(num(key["e"]))}
		if scheme == "pkcs1" {
			return rsa.VerifyPKCS1v15(pub, h, digest(), sig) == nil
		}
		if scheme == "pssEq" {
			return rsa.VerifyPSS(pub, h, digest(), sig, &rsa.PSSOptions{SaltLength: rsa.PSSSaltLengthEqualsHash}) == nil
		}
		return rsa.VerifyPSS(pub, h, digest(), sig, nil) == nil
	}
	return false
}

func oidInts(o asn1.ObjectIdentifier) []int {
	return append([]int{}, o...)
}

func certView(c *x509.Certificate) M {
	exts := []M{}
	for _, e := range c.Extensions {
		exts = append(exts, M{"oid": oidInts(e.Id), "critical": e.Critical, "value": hx(e.Value)})
	}
	ekus := [][]int{}
	for _, e := range c.UnknownExtKeyUsage {
		ekus = append(ekus, oidInts(e))
	}
	return M{"version": c.Version, "isCA": c.IsCA,
		"country":    hx([]byte(strings.Join(c.Subject.Country, ""))),
		"org":        hx([]byte(strings.Join(c.Subject.Organization, ""))),
		"orgUnit":    hx([]byte(strings.Join(c.Subject.OrganizationalUnit, ""))),
		"commonName": hx([]byte(c.Subject.CommonName)),
		"exts":       exts, "unknownEKUs": ekus, "key": keyMat(c.PublicKey)}
}

// harness-local copy of the Keymaster structures (the dependency here is encoding/asn1; the struct
// definition is schema data, re-stated so that the oracle does not call into /repo)
type hAuthList struct {
	Purpose                     []int        `asn1:"tag:1,explicit,set,optional"`
	Algorithm                   int          `asn1:"tag:2,explicit,optional"`
	KeySize                     int          `asn1:"tag:3,explicit,optional"`
	Digest                      []int        `asn1:"tag:5,explicit,set,optional"`
	Padding                     []int        `asn1:"tag:6,explicit,set,optional"`
	ECCurve                     int          `asn1:"tag:10,explicit,optional"`
	RSAPublicExponent           int          `asn1:"tag:200,explicit,optional"`
	RollbackResistance          asn1.Flag    `asn1:"tag:303,explicit,optional"`
	ActiveDateTime              int          `asn1:"tag:400,explicit,optional"`
	OriginationExpireDateTime   int          `asn1:"tag:401,explicit,optional"`
	UsageExpireDateTime         int          `asn1:"tag:402,explicit,optional"`
	NoAuthRequired              asn1.Flag    `asn1:"tag:503,explicit,optional"`
	UserAuthType                int          `asn1:"tag:504,explicit,optional"`
	AuthTimeout                 int          `asn1:"tag:505,explicit,optional"`
	AllowWhileOnBody            asn1.Flag    `asn1:"tag:506,explicit,optional"`
	TrustedUserPresenceRequired asn1.Flag    `asn1:"tag:507,explicit,optional"`
	TrustedConfirmationRequired asn1.Flag    `asn1:"tag:508,explicit,optional"`
	UnlockedDeviceRequired      asn1.Flag    `asn1:"tag:509,explicit,optional"`
	AllApplications             asn1.Flag    `asn1:"tag:600,explicit,optional"`
	ApplicationID               asn1.Flag    `asn1:"tag:601,explicit,optional"`
	CreationDateTime            int          `asn1:"tag:701,explicit,optional"`
	Origin                      int          `asn1:"tag:702,explicit,optional"`
	RootOfTrust                 hRootOfTrust `asn1:"tag:704,explicit,optional"`
	OSVersion                   int          `asn1:"tag:705,explicit,optional"`
	OSPatchLevel                int          `asn1:"tag:706,explicit,optional"`
	AttestationApplicationID    []byte       `asn1:"tag:709,explicit,optional"`
	AttestationIDBrand          []byte       `asn1:"tag:710,explicit,optional"`
	AttestationIDDevice         []byte       `asn1:"tag:711,explicit,optional"`
	AttestationIDProduct        []byte       `asn1:"tag:712,explicit,optional"`
	AttestationIDSerial         []byte       `asn1:"tag:713,explicit,optional"`
	AttestationIDIMEID          []byte       `asn1:"tag:714,explicit,optional"`
	AttestationIDMEID           []byte       `asn1:"tag:715,explicit,optional"`
	AttestationIDManufacturer   []byte       `asn1:"tag:716,explicit,optional"`
	AttestationIDModel          []byte       `asn1:"tag:717,explicit,optional"`
	VendorPatchLevel            int          `asn1:"tag:718,explicit,optional"`
	BootPatchLevel              int          `asn1:"tag:719,explicit,optional"`
}
type hRootOfTrust struct {
	VerifiedBootKey   []byte
	DeviceLocked      bool
	VerifiedBootState asn1.Enumerated
	VerifiedBootHash  []byte
}
type hKeyDescription struct {
	AttestationVersion       int
	AttestationSecurityLevel asn1.Enumerated
	KeyMasterVersion         int
	KeyMasterSecurityLevel   asn1.Enumerated
	AttestationChallenge     []byte
	UniqueID                 []byte
	SoftwareEnforced         hAuthList
	TeeEnforced              hAuthList
}

func safetyNetView(raw []byte) any {
	out := M{"parsed": false, "chainsOK": false, "claimsOK": false, "nonce": ""}
	tok, err := jwt.ParseSigned(string(raw))
	if err != nil {
		return out
	}
	out["parsed"] = true
	var chains [][]*x509.Certificate
	for _, h := range tok.Headers {
		cs, err := h.Certificates(x509.VerifyOptions{DNSName: "attest.android.com"})
		if err != nil {
			return out
		}
		chains = append(chains, cs...)
	}
	if len(chains) == 0 || len(chains[0]) == 0 {
		return out
	}
	out["chainsOK"] = true
	var claims struct {
		Nonce []byte `json:"nonce"`
		// remaining members of android.SafetyNetClaims matter only through json type errors
		TimestampMS                int      `json:"timestampMs"`
		APKPackageName             string   `json:"apkPackageName"`
		APKCertificateDigestSHA256 [][]byte `json:"apkCertificateDigestSha256"`
		CTSProfileMatch            bool     `json:"ctsProfileMatch"`
		BasicIntegrity             bool     `json:"basicIntegrity"`
		EvaluationType             string   `json:"evaluationType"`
	}
	if err := tok.Claims(chains[0][0].PublicKey, &claims); err != nil {
		return out
	}
	out["claimsOK"] = true
	out["nonce"] = hx(claims.Nonce)
	return out
}

// sanHasTimeValue: does a SAN directory name of the certificate carry a UTCTime / GeneralizedTime attribute value?
func sanHasTimeValue(c *x509.Certificate) bool {
	found := false
	for _, ext := range c.Extensions {
		if !ext.Id.Equal(oidSANExt) {
			continue
		}
		var walk func(b []byte, depth int)
		walk = func(b []byte, depth int) {
			for len(b) > 0 && depth < 8 {
				var rv asn1.RawValue
				rest, err := asn1.Unmarshal(b, &rv)
				if err != nil {
					return
				}
				if rv.Class == 0 && !rv.IsCompound && (rv.Tag == 23 || rv.Tag == 24) {
					found = true
				}
				if rv.IsCompound {
					walk(rv.Bytes, depth+1)
				}
				b = rest
			}
		}
		walk(ext.Value, 0)
	}
	return found
}
