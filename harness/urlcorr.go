package main

import (
	"fmt"
	"net/url"
	"strings"
)

// Correspondence of the Lean net/url model (Model/Url.lean: did url.Parse succeed, and what is Hostname()) with net/url itself.

func init() {
	executors["url.host"] = func(c *Ctx, stream string, op M) {
		s := string(unhx(op["s"].(string)))
		model := c.Call(M{"op": "url.host", "s": op["s"]})
		delete(model, "id")
		impl := guard(func() M {
			u, err := url.Parse(s)
			if err != nil {
				return M{"ok": false}
			}
			return M{"ok": true, "host": hx([]byte(u.Hostname()))}
		})
		class := "error"
		if ok, _ := impl["ok"].(bool); ok {
			class = "hostless"
			if impl["host"] != "" {
				class = "host"
			}
		}
		c.Compare(stream, op, impl, model, class, len(s) > 0)
	}
	run := func(c *Ctx, stream, s string) {
		executors["url.host"](c, stream, M{"op": "url.host", "s": hx([]byte(s))})
	}
	register("C13",
		Stream{"url.structured", func(c *Ctx) {
			// scheme :// userinfo @ host : port / path ? query # fragment, every component drawn from honest and hostile alphabets
			schemes := []string{"https", "http", "HTTPS", "ftp", "a+b-c.d", "1http", "", "h ttp", "https:", "x"}
			users := []string{"", "user", "user:pw", "u%41", "u%4", "u%zz", "a@b", "example.com", "us er", "ü", ":", "u:p:q", "%25", "a/b"}
			hosts := []string{"example.com", "EXAMPLE.com", "login.example.com", "a.b", "localhost", "192.168.1.10", "[2001:db8::1]", "[::1]", "[fe80::1%25eth0]", "[fe80::1%25e%20x]",
				"[fe80::1%25%41]", "[fe80::1%25%7f]", "[::1", "::1]", "[]", "[", "]", "", "exa mple.com", "example.com.", ".example.com", "ex%61mple.com", "ex%C3%A9.com", "%25.com", "ex%2Fa.com",
				"a,b;c=d", "a<b>c", "a\"b", "a^b", "a{b}", "a|b", "a`b", "a\\b", "a$b&c'(d)*+", "é.com", "xn--bcher-kva.example", "a..b", "-", "_", "~", "!", "a:b", "a:b:c", "[a]:b", "[::1]x", "[::1]:", "[::1]:80", "[::1]:8a"}
			ports := []string{"", ":", ":443", ":0", ":65536", ":99999999999999999999", ":8a", ":-1", ": 80", ":80:90", ":%38"}
			paths := []string{"", "/", "/p/a/t/h", "/example.com", "/%41", "/%4", "/%zz", "//double", "/a b", "/a?b", "p", "/;x=1", "/:", "/@", "/[", "/\\"}
			queries := []string{"", "?", "?q=1", "?example.com", "?a?b", "?%zz", "?#", "??"}
			frags := []string{"", "#", "#frag", "#example.com", "#%41", "#%4", "#%zz", "#a#b", "#?x", "#/"}
			n := c.N(6000, 400000)
			for i := 0; i < n; i++ {
				r := c.R
				var sb strings.Builder
				sch := pick(r, schemes)
				if r.P(5, 6) {
					sch = pick(r, schemes[:4])
				}
				sb.WriteString(sch)
				switch r.Intn(12) {
				case 0:
					sb.WriteString(":")
				case 1:
					sb.WriteString(":/")
				case 2:
					sb.WriteString(":///")
				case 3:
					sb.WriteString("//")
				case 4:
					// no separator at all
				default:
					sb.WriteString("://")
				}
				if u := pick(r, users); u != "" && r.P(1, 3) {
					sb.WriteString(u + "@")
				}
				if r.P(2, 3) {
					sb.WriteString(pick(r, hosts[:10]))
				} else {
					sb.WriteString(pick(r, hosts))
				}
				if r.P(1, 2) {
					sb.WriteString(pick(r, ports))
				}
				if r.P(1, 2) {
					sb.WriteString(pick(r, paths))
				}
				if r.P(1, 3) {
					sb.WriteString(pick(r, queries))
				}
				if r.P(1, 3) {
					sb.WriteString(pick(r, frags))
				}
				s := sb.String()
				if r.P(1, 10) {
					s = string(mutate(r, []byte(s)))
				}
				run(c, "url.structured", s)
			}
		}},
		Stream{"url.exhaustive", func(c *Ctx) {
			// every string up to a bounded length over the delimiters and a few letters
			alphabet := []string{"a", ":", "/", "@", "?", "#", "[", "]", "%", "2", "5", ".", " ", "\x7f", "é"}
			maxLen := c.N(4, 5)
			count := 0
			var rec func(prefix string, d int)
			rec = func(prefix string, d int) {
				run(c, "url.exhaustive", prefix)
				run(c, "url.exhaustive", "h://"+prefix)
				count += 2
				if d == 0 {
					return
				}
				for _, a := range alphabet {
					rec(prefix+a, d-1)
				}
			}
			rec("", maxLen)
			c.Res.mu.Lock()
			c.Res.Exhaustive = append(c.Res.Exhaustive, fmt.Sprintf("url.Parse/Hostname on all %d strings s and \"h://\"+s, |s| <= %d over a 15-symbol alphabet", count, maxLen))
			c.Res.mu.Unlock()
		}},
		Stream{"url.bytes", func(c *Ctx) {
			// every single byte value in host, user-info, port, path, query and fragment position, plain and percent-escaped
			for b := 0; b < 256; b++ {
				ch := string([]byte{byte(b)})
				esc := fmt.Sprintf("%%%02X", b)
				escl := fmt.Sprintf("%%%02x", b)
				for _, x := range []string{ch, esc, escl} {
					for _, tpl := range []string{"https://a%sb.com", "https://%s@example.com", "https://u:%s@example.com", "https://example.com:%s", "https://example.com/%s", "https://example.com?%s",
						"https://example.com#%s", "%s://example.com", "https://[::1%s]", "https://[fe80::1%%25%s]", "https://[fe80::1%%25z]%s", "%s", "https://%s", "//%s", "/%s"} {
						run(c, "url.bytes", fmt.Sprintf(tpl, x))
					}
				}
			}
		}},
	)
}
