package main

import (
	"fmt"

	"github.com/google/go-tpm/legacy/tpm2"
)

// Correspondence of the Lean go-tpm model (Model/Tpm2.lean) with legacy/tpm2: DecodeAttestationData / Encode, DecodePublic / Key / Encode.

func tpmHashTable() [][2]int64 {
	var out [][2]int64
	for _, a := range []tpm2.Algorithm{tpm2.AlgSHA1, tpm2.AlgSHA256, tpm2.AlgSHA384, tpm2.AlgSHA512, tpm2.AlgSHA3_256, tpm2.AlgSHA3_384, tpm2.AlgSHA3_512} {
		if h, err := a.Hash(); err == nil {
			out = append(out, [2]int64{int64(a), int64(h)})
		}
	}
	return out
}

func init() {
	executors["tpm2.certInfo"] = func(c *Ctx, stream string, op M) {
		model := c.Call(M{"op": "tpm2.certInfo", "raw": op["raw"], "hashes": tpmHashTable()})
		delete(model, "id")
		var impl M
		guard(func() M {
			a := answerAsk(c.D, "tpmCertInfo", M{"raw": op["raw"]})
			if a == nil {
				impl = M{"ok": false}
			} else {
				impl = M{"ok": true}
				for k, v := range a.(M) {
					impl[k] = v
				}
			}
			return nil
		})
		if impl == nil {
			impl = M{"panic": true}
		}
		class := "error"
		if ok, _ := impl["ok"].(bool); ok {
			class = fmt.Sprint("type-", impl["type"], "-", impl["nameKind"])
			// Creation / Quote structures: the verifier rejects them by type; their bodies are not modelled
			if t := num(impl["type"]); t != 0x8017 {
				c.Compare(stream, op, M{"type": impl["type"]}, M{"type": model["type"]}, class, true)
				return
			}
		} else if mok, _ := model["ok"].(bool); mok && num(model["type"]) != 0x8017 {
			c.Compare(stream, op, M{"rejected-or-other-type": true}, M{"rejected-or-other-type": true}, "other-type-undecodable", true)
			return
		}
		c.Compare(stream, op, impl, model, class, true)
	}
	executors["tpm2.pubArea"] = func(c *Ctx, stream string, op M) {
		model := c.Call(M{"op": "tpm2.pubArea", "raw": op["raw"]})
		delete(model, "id")
		var impl M
		guard(func() M {
			a := answerAsk(c.D, "tpmPubArea", M{"raw": op["raw"]})
			if a == nil {
				impl = M{"ok": false}
			} else {
				impl = M{"ok": true}
				for k, v := range a.(M) {
					impl[k] = v
				}
			}
			return nil
		})
		if impl == nil {
			impl = M{"panic": true}
		}
		class := "error"
		if ok, _ := impl["ok"].(bool); ok {
			class = "ok"
			if impl["key"] == nil {
				class = "ok-nokey"
			}
		}
		c.Compare(stream, op, impl, model, class, true)
	}
	register("C04",
		Stream{"tpm2.structures", func(c *Ctx) {
			r := c.R
			n := c.N(400, 30000)
			algs := []tpm2.Algorithm{tpm2.AlgSHA1, tpm2.AlgSHA256, tpm2.AlgSHA384, tpm2.AlgSHA512, tpm2.AlgSHA3_256, tpm2.AlgNull, tpm2.AlgRSA, 0, 0x7777}
			for i := 0; i < n; i++ {
				// attestation data from the generator, then damaged
				nameAlg := pick(r, algs[:5])
				name := tpm2.Name{Digest: &tpm2.HashValue{Alg: nameAlg, Value: tpmHash(nameAlg, r.Bytes(8))}}
				switch r.Intn(6) {
				case 0:
					h := tpmutilHandle(0x81000001)
					name = tpm2.Name{Handle: &h}
				case 1:
					name = tpm2.Name{}
				}
				typ := pick(r, []uint16{0x8017, 0x8017, 0x8017, 0x801a, 0x8018, 0x8014, 0})
				magic := pick(r, []uint32{0xFF544347, 0xFF544347, 0xFF544347, 0, 0xFF544348})
				ci := tpmCertInfoRaw(r.Bytes(r.Intn(70)), name, magic, typ)
				var variants [][]byte
				variants = append(variants, ci, mutate(r, ci), ci[:r.Intn(len(ci)+1)], append(append([]byte{}, ci...), r.Bytes(1+r.Intn(4))...))
				// names with a size prefix that disagrees with the digest size (short digests are zero-padded, extra bytes ignored)
				if len(ci) > 12 {
					b := append([]byte{}, ci...)
					b[7] = byte(int(b[7]) + pick(r, []int{-1, 1, -10, 2}))
					variants = append(variants, b)
				}
				for _, v := range variants {
					executors["tpm2.certInfo"](c, "tpm2.certInfo", M{"op": "tpm2.certInfo", "raw": hx(v)})
				}
				// public areas of every kind
				var pa []byte
				switch r.Intn(6) {
				case 0, 1:
					kp := genKeyPair(r, pick(r, []int{algRS256, algES256, algES384, algES512}))
					p := tpmPublicFor(kp, pick(r, algs[:5]))
					pa, _ = p.Encode()
				case 2:
					pa = rawPublic(r, 0x0001)
				case 3:
					pa = rawPublic(r, 0x0023)
				case 4:
					pa = rawPublic(r, pick(r, []uint16{0x0025, 0x0008}))
				default:
					pa = rawPublic(r, pick(r, []uint16{0, 0x0010, 0x0004, 0x7777}))
				}
				for _, v := range [][]byte{pa, mutate(r, pa), pa[:r.Intn(len(pa)+1)], append(append([]byte{}, pa...), r.Bytes(1+r.Intn(4))...)} {
					executors["tpm2.pubArea"](c, "tpm2.pubArea", M{"op": "tpm2.pubArea", "raw": hx(v)})
				}
			}
			for i := 0; i < c.N(300, 20000); i++ {
				b := r.Bytes(r.Intn(60))
				executors["tpm2.certInfo"](c, "tpm2.certInfo", M{"op": "tpm2.certInfo", "raw": hx(append([]byte{0xff, 0x54, 0x43, 0x47, 0x80, 0x17}, b...))})
				executors["tpm2.pubArea"](c, "tpm2.pubArea", M{"op": "tpm2.pubArea", "raw": hx(b)})
			}
		}},
	)
}

// tpmCertInfoRaw writes a TPMS_ATTEST by hand so that any type / magic can be produced
func tpmCertInfoRaw(extra []byte, name tpm2.Name, magic uint32, typ uint16) []byte {
	u16 := func(v int) []byte { return []byte{byte(v >> 8), byte(v)} }
	b2 := func(b []byte) []byte { return append(u16(len(b)), b...) }
	nm := func(n tpm2.Name) []byte {
		e, err := n.Encode()
		if err != nil {
			return []byte{0, 0}
		}
		return e
	}
	out := []byte{byte(magic >> 24), byte(magic >> 16), byte(magic >> 8), byte(magic)}
	out = append(out, u16(int(typ))...)
	out = append(out, nm(tpm2.Name{Digest: &tpm2.HashValue{Alg: tpm2.AlgSHA256, Value: make([]byte, 32)}})...)
	out = append(out, b2(extra)...)
	out = append(out, make([]byte, 17+8)...)
	out = append(out, nm(name)...)
	out = append(out, nm(tpm2.Name{Digest: &tpm2.HashValue{Alg: tpm2.AlgSHA256, Value: make([]byte, 32)}})...)
	return out
}

// rawPublic writes a TPMT_PUBLIC by hand with random scheme algorithms (null, zero, ordinary, ECDAA) and parameters
func rawPublic(r *RNG, typ uint16) []byte {
	u16 := func(v int) []byte { return []byte{byte(v >> 8), byte(v)} }
	b2 := func(b []byte) []byte { return append(u16(len(b)), b...) }
	schemeAlg := func() int { return pick(r, []int{0x10, 0x10, 0, 0x06, 0x14, 0x18, 0x1A, 0x7777}) }
	out := append(u16(int(typ)), u16(pick(r, []int{0x0B, 0x04, 0x0C, 0x27, 0x10}))...)
	out = append(out, r.Bytes(4)...)
	out = append(out, b2(r.Bytes(r.Intn(34)))...)
	sym := func() []byte {
		a := schemeAlg()
		o := u16(a)
		if a != 0x10 {
			o = append(o, r.Bytes(4)...)
		}
		return o
	}
	sig := func() []byte {
		a := schemeAlg()
		o := u16(a)
		if a != 0x10 {
			o = append(o, r.Bytes(2)...)
			if a == 0x1A {
				o = append(o, r.Bytes(4)...)
			}
		}
		return o
	}
	switch typ {
	case 0x0001:
		out = append(out, sym()...)
		out = append(out, sig()...)
		out = append(out, u16(2048)...)
		out = append(out, pick(r, [][]byte{{0, 0, 0, 0}, {0, 1, 0, 1}, {0xff, 0xff, 0xff, 0xff}, {0, 0, 0, 3}})...)
		out = append(out, b2(append(pick(r, [][]byte{nil, {0}, {0, 0}}), r.Bytes(pick(r, []int{0, 1, 128, 256}))...))...)
	case 0x0023:
		out = append(out, sym()...)
		out = append(out, sig()...)
		out = append(out, u16(pick(r, []int{1, 2, 3, 4, 5, 6, 0x10, 0}))...)
		a := schemeAlg()
		out = append(out, u16(a)...)
		if a != 0x10 {
			out = append(out, r.Bytes(2)...)
		}
		out = append(out, b2(append(pick(r, [][]byte{nil, {0}}), r.Bytes(pick(r, []int{0, 28, 32, 48, 66}))...))...)
		out = append(out, b2(r.Bytes(pick(r, []int{0, 28, 32, 48, 66})))...)
	case 0x0025:
		out = append(out, sym()...)
		out = append(out, b2(r.Bytes(r.Intn(40)))...)
	case 0x0008:
		a := pick(r, []int{0x10, 0x05, 0x0A, 0x0B, 0})
		out = append(out, u16(a)...)
		if a == 0x05 {
			out = append(out, r.Bytes(2)...)
		}
		if a == 0x0A {
			out = append(out, r.Bytes(4)...)
		}
		out = append(out, b2(r.Bytes(r.Intn(40)))...)
	default:
		out = append(out, r.Bytes(r.Intn(20))...)
	}
	return out
}
