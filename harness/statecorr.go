package main

import (
	"crypto/x509"
	"encoding/json"
	"fmt"

	"github.com/pomerium/webauthn"
)

// What a relying party, an attestation object or the library's own storage may keep between calls (round 12 of the seeded changes: a memo of
// verified attestation objects, decoded authenticator data kept on the object, a per-user index inside InMemoryCredentialStorage).  Every call
// must come out as the same call does on fresh objects over the storage contents of that moment — which is what the stateless model computes.

func init() {
	// ---- registrations in a row on ONE RelyingParty over ONE storage that keeps what was stored ----
	executors["reg.sequence"] = func(c *Ctx, stream string, op M) {
		steps, _ := op["steps"].([]M)
		if len(steps) == 0 {
			return
		}
		st := storeFromOp(M{})
		var rp *webauthn.RelyingParty
		var implObs, modelObs []M
		accepts := 0
		for _, step := range steps {
			if rp == nil {
				rp = webauthn.NewRelyingParty(string(unhx(step["origin"].(string))), st)
			}
			mstep := M{}
			for k, v := range step {
				mstep[k] = v
			}
			mstep["store"] = st.dump()
			st.calls = []M{}
			impl := runRegisterImplOn(rp, st, step)
			model := c.Call(mstep)
			if um, _ := model["unmodelled"].(bool); um {
				c.Unmodelled(stream)
				return
			}
			mo := M{"ok": model["ok"], "store": sortStore(model["store"])}
			if ok, _ := model["ok"].(bool); ok {
				mo["cred"] = model["cred"]
				accepts++
			} else {
				mo["class"] = modelRegClass(fmt.Sprint(model["class"]))
			}
			io := M{"ok": impl["ok"], "store": impl["store"]}
			if ok, _ := impl["ok"].(bool); ok {
				io["cred"] = impl["cred"]
			} else {
				io["class"] = impl["class"]
			}
			for _, k := range []string{"panic", "timeout_s", "nonNilCredentialWithError"} {
				if v, has := impl[k]; has {
					io[k] = v
				}
			}
			implObs, modelObs = append(implObs, io), append(modelObs, mo)
		}
		class := fmt.Sprintf("len%d-accepts%d", len(steps), accepts)
		if dv, ok := op["_dev"].(string); ok {
			class += "/" + dv
		}
		c.Compare(stream, op, M{"steps": implObs}, M{"steps": modelObs}, class, accepts > 0)
	}
	regSeq := func(name string) Stream {
		return Stream{name, func(c *Ctx) {
			r := c.R
			n := c.N(6, 300)
			for i := 0; i < n; i++ {
				for _, f := range allFormats {
					origin := pick(r, honestOrigins)
					user := r.Bytes(6)
					s := newRegSpec(r, f, pick(r, credAlgsFor(f)))
					s.Origin, s.Client, s.UserID = origin, origin, user
					s.AttAlg = pick(r, attAlgsFor(f))
					s.Inert = nil
					b := buildRegistration(r, s)
					honest := b.Op()
					// the same attestation object presented again under ANOTHER challenge: the client data is re-made for the new challenge
					// (right type, right origin), the statement is the one made for the old client data
					replay := M{}
					for k, v := range honest {
						replay[k] = v
					}
					ch2 := r.Bytes(len(s.Challenge))
					replay["challenge"] = hx(ch2)
					replay["cdj"] = hx(ClientDataSpec{Type: "webauthn.create", Challenge: b64u(ch2), Origin: origin}.JSON(r))
					// ... and under the SAME challenge with client data altered after the statement was made (a further member)
					altered := M{}
					for k, v := range honest {
						altered[k] = v
					}
					altered["cdj"] = hx(ClientDataSpec{Type: "webauthn.create", Challenge: b64u(s.Challenge), Origin: origin, Extra: M{"crossOrigin": false, "other": "x"}}.JSON(r))
					// another honest registration of the same user in between
					s2 := newRegSpec(r, f, pick(r, credAlgsFor(f)))
					s2.Origin, s2.Client, s2.UserID = origin, origin, user
					s2.AttAlg = pick(r, attAlgsFor(f))
					s2.Inert = nil
					other := buildRegistration(r, s2).Op()
					seqs := [][]M{{honest, replay}, {honest, altered}, {honest, other, replay, honest}, {replay, honest, altered, replay}, {honest, honest}}
					executors["reg.sequence"](c, name, M{"op": "reg.sequence", "steps": pick(r, seqs), "_dev": f + "/replayed"})
				}
			}
		}}
	}
	register("C02", regSeq("reg.sequence"))
	register("C16", regSeq("reg.sequence"))

	// ---- ONE AttestationObject value verified, then given the members of another attestation and verified again ----
	executors["attest.reusedObject"] = func(c *Ctx, stream string, op M) {
		first, second := op["first"].(M), op["second"].(M)
		model := c.Call(second)
		if um, _ := model["unmodelled"].(bool); um {
			c.Unmodelled(stream)
			return
		}
		mo := M{"ok": model["ok"]}
		if ok, _ := model["ok"].(bool); ok {
			mo["type"] = model["type"]
		}
		impl := guard(func() M {
			o1, _, err := webauthn.UnmarshalAttestationObject(unhx(first["attObj"].(string)))
			if err != nil {
				return M{"decoded": false}
			}
			o2, _, err := webauthn.UnmarshalAttestationObject(unhx(second["attObj"].(string)))
			if err != nil {
				return M{"decoded": false}
			}
			var h1, h2 webauthn.ClientDataJSONHash
			copy(h1[:], unhx(first["cdHash"].(string)))
			copy(h2[:], unhx(second["cdHash"].(string)))
			// first use of the object: decode its authenticator data and verify its statement
			_, _ = o1.UnmarshalAuthenticatorData()
			_, _ = webauthn.VerifyAttestationStatement(o1, h1)
			// the caller re-uses the value for the next attestation (in place, or as a copy of the struct)
			target := o1
			if m, _ := op["mode"].(string); m == "copy" {
				cp := *o1
				target = &cp
			}
			target.Format, target.AuthData, target.Statement = o2.Format, o2.AuthData, o2.Statement
			res, err := webauthn.VerifyAttestationStatement(target, h2)
			if err != nil || res == nil {
				return M{"ok": false}
			}
			return M{"ok": true, "type": string(res.Type)}
		})
		class := "reject"
		if ok, _ := model["ok"].(bool); ok {
			class = "accept"
		}
		if dv, ok := op["_dev"].(string); ok {
			class += "/" + dv
		}
		c.Compare(stream, op, impl, mo, class, true)
	}
	reused := func(name string) Stream {
		return Stream{name, func(c *Ctx) {
			r := c.R
			n := c.N(6, 300)
			for i := 0; i < n; i++ {
				for _, f := range allFormats {
					mk := func(dev string) M {
						s := newRegSpec(r, f, pick(r, credAlgsFor(f)))
						s.AttAlg = pick(r, attAlgsFor(f))
						if dev != "" {
							s.Dev[dev] = true
						}
						b := buildRegistration(r, s)
						return b.AttestOp("")
					}
					first := mk("")
					// the second attestation: another honest one (other key, other AAGUID, other credential id) — it must verify although the
					// object has seen the first — or one that must be refused
					dev := ""
					if devs := formatRequirementDevs[f]; len(devs) > 0 && r.P(1, 3) {
						dev = pick(r, devs)
					}
					second := mk(dev)
					if r.P(1, 4) {
						// of another format altogether
						g := pick(r, allFormats)
						s := newRegSpec(r, g, pick(r, credAlgsFor(g)))
						s.AttAlg = pick(r, attAlgsFor(g))
						second = buildRegistration(r, s).AttestOp("")
					}
					executors["attest.reusedObject"](c, name, M{"op": "attest.reusedObject", "first": first, "second": second, "mode": pick(r, []string{"inPlace", "copy"}), "_dev": f + "/" + dev})
				}
			}
		}}
	}
	register("C04", reused("attest.reusedObject"))
	register("C03", reused("attest.reusedObject"))

	// ---- the library's own storage with a history of saved records, handed to the relying party as it is ----
	executors["auth.inMemory"] = func(c *Ctx, stream string, op M) {
		model := c.Call(op)
		if um, _ := model["unmodelled"].(bool); um {
			c.Unmodelled(stream)
			return
		}
		mo := M{"ok": model["ok"]}
		class := "accept"
		if ok, _ := model["ok"].(bool); ok {
			mo["cred"] = model["cred"]
		} else {
			mo["class"] = modelAuthClass(fmt.Sprint(model["class"]))
			class = fmt.Sprint(model["class"])
		}
		st := storeFromOp(op)
		impl := runAuthImplOn(nil, st, op)
		io := M{"ok": impl["ok"]}
		if ok, _ := impl["ok"].(bool); ok {
			io["cred"] = impl["cred"]
		} else {
			io["class"] = impl["class"]
		}
		for _, k := range []string{"panic", "timeout_s", "nonNilCredentialWithError"} {
			if v, has := impl[k]; has {
				io[k] = v
			}
		}
		if dv, ok := op["_dev"].(string); ok {
			class += "/" + dv
		}
		c.Compare(stream, op, io, mo, class, true)
	}
	inMem := func(name string) Stream {
		return Stream{name, func(c *Ctx) {
			r := c.R
			n := c.N(60, 3000)
			for i := 0; i < n; i++ {
				origin := pick(r, honestOrigins)
				id := r.Bytes(1 + r.Intn(20))
				alice, bob := r.Bytes(6), r.Bytes(6)
				kA, kB := genKeyPair(r, pick(r, []int{algES256, algEdDSA, algRS256})), genKeyPair(r, pick(r, []int{algES256, algEdDSA, algRS256}))
				for sameKey(kA, kB) {
					kB = genKeyPair(r, algES256)
				}
				recA := M{"id": hx(id), "owner": hx(alice), "pk": hx(kA.COSE(true))}
				recB := M{"id": hx(id), "owner": hx(bob), "pk": hx(kB.COSE(true))}
				otherID := r.Bytes(8)
				recO := M{"id": hx(otherID), "owner": hx(alice), "pk": hx(kA.COSE(true))}
				// the id was saved for alice, later saved again for bob (the integrator's doing: the storage is theirs); alice keeps other ids
				hist := pick(r, [][]M{{recA, recB}, {recA, recO, recB}, {recO, recA, recB, recO}, {recB, recA, recB}})
				type who struct {
					owner  []byte
					signer *KeyPair
					stored M
					dev    string
				}
				for _, w := range []who{{alice, kA, recB, "previousOwner"}, {bob, kB, recB, "currentOwner"}, {alice, kB, recB, "previousOwnerNewKey"}, {bob, kA, recB, "currentOwnerOldKey"}} {
					s := newAuthSpec(r, origin, w.signer, id, w.owner, unhx(w.stored["pk"].(string)))
					s.Inert = nil
					op := buildAssertion(r, s)
					// what the storage holds now: the last record saved under each id
					final := map[string]M{}
					var order []string
					for _, rec := range hist {
						k := rec["id"].(string)
						if _, seen := final[k]; !seen {
							order = append(order, k)
						}
						final[k] = rec
					}
					var store []M
					for _, k := range order {
						store = append(store, final[k])
					}
					op["store"] = store
					op["storeHistory"] = hist
					op["userHandle"] = hx(w.owner)
					if r.Bool() {
						op["allow"] = []string{} // discoverable-credential flow: no allow list, the user handle identifies the user
					}
					op["_dev"] = w.dev
					executors["auth.inMemory"](c, name, op)
				}
			}
		}}
	}
	register("C01", inMem("auth.inMemory"))
	register("C07", inMem("auth.inMemory"))

	// ---- the credential as the JSON document a browser sends (WebAuthn Level 3 adds response members that repeat, unsigned, what the
	// attestation object says): the ceremony's verdict and what it stores are those of the attestation object ----
	viaJSON := func(name string) Stream {
		return Stream{name, func(c *Ctx) {
			r := c.R
			n := c.N(8, 400)
			for i := 0; i < n; i++ {
				for _, f := range allFormats {
					s := newRegSpec(r, f, pick(r, credAlgsFor(f)))
					s.AttAlg = pick(r, attAlgsFor(f))
					b := buildRegistration(r, s)
					op := b.Op()
					// another authenticator's data (another credential id and key), and this one's with a bit changed
					s2 := newRegSpec(r, f, pick(r, credAlgsFor(f)))
					s2.AttAlg = pick(r, attAlgsFor(f))
					s2.Origin, s2.Client = s.Origin, s.Client
					other := buildRegistration(r, s2)
					flipped := append([]byte{}, b.AuthData...)
					if len(flipped) > 0 {
						flipped[r.Intn(len(flipped))] ^= 1 << uint(r.Intn(8))
					}
					dev := pick(r, []string{"same", "other", "flipped", "absent", "empty"})
					resp := M{"clientDataJSON": b64u(b.CDJ), "attestationObject": b64u(b.AttObj())}
					switch dev {
					case "same":
						// what getAuthenticatorData() / getPublicKey() / getPublicKeyAlgorithm() of an honest client return: the attested
						// authenticator data, the credential key as SubjectPublicKeyInfo, its algorithm
						resp["authenticatorData"] = b64u(b.AuthData)
						if spki, err := x509.MarshalPKIXPublicKey(b.Cred.Public()); err == nil {
							resp["publicKey"] = b64u(spki)
							resp["publicKeyAlgorithm"] = b.Cred.Alg
							resp["transports"] = []string{"usb", "nfc"}
						}
					case "other":
						resp["authenticatorData"] = b64u(other.AuthData)
						resp["publicKey"] = b64u(other.Cred.COSE(true))
					case "flipped":
						resp["authenticatorData"] = b64u(flipped)
					case "empty":
						resp["authenticatorData"] = ""
					}
					if r.Bool() && dev != "same" {
						resp["publicKeyAlgorithm"] = pick(r, []int{-7, -257, -8, 0, 1})
						resp["transports"] = pick(r, [][]string{{"usb"}, {"internal", "hybrid"}, {}})
					}
					doc := M{"id": b64u(b.RawID), "rawId": b64u(b.RawID), "type": "public-key", "response": resp}
					if r.Bool() {
						doc["authenticatorAttachment"] = pick(r, []string{"platform", "cross-platform"})
						doc["clientExtensionResults"] = M{"credProps": M{"rk": r.Bool()}}
					}
					j, _ := json.Marshal(doc)
					op["credJSON"] = hx(j)
					op["_dev"] = "level3/" + dev
					executors["register"](c, name, op)
				}
			}
		}}
	}
	register("C03", viaJSON("reg.viaJSON"))
	register("C02", viaJSON("reg.viaJSON"))
	register("C05", viaJSON("reg.viaJSON"))
}
