package main

import (
	"crypto"
	"crypto/ecdsa"
	"crypto/ed25519"
	"crypto/rand"
	"crypto/rsa"
	"crypto/x509"
	"encoding/base64"
	"fmt"
	"math/big"
	"sort"
	"strings"
	"unicode"

	jose "github.com/go-jose/go-jose/v3"
	josejson "github.com/go-jose/go-jose/v3/json"
	"github.com/pomerium/webauthn/android"
)

// Correspondence of the Lean go-jose model (Model/Jws.lean, Basic/Base64Std.lean) with
//   jose.ParseSigned / JSONWebSignature.Verify / Header.Certificates        (op jws.parse)
//   (go-jose/v3/json).Unmarshal into android.SafetyNetClaims                (op jws.claims)
//   base64.StdEncoding.DecodeString                                         (op b64.std)
//   stripWhitespace (unexported: compared with the copy below, and indirectly through jws.parse)   (op jws.strip)

// jwsRefStrip is a verbatim copy of go-jose's unexported stripWhitespace (encoding.go, v3.0.3).
func jwsRefStrip(data string) string {
	buf := strings.Builder{}
	buf.Grow(len(data))
	for _, r := range data {
		if !unicode.IsSpace(r) {
			buf.WriteRune(r)
		}
	}
	return buf.String()
}

// jwsIndepVerify checks sig over input under the JWS algorithm named alg with the standard library alone.
func jwsIndepVerify(pub any, alg string, input, sig []byte) bool {
	hashOf := func(bits string) crypto.Hash {
		switch bits {
		case "256":
			return crypto.SHA256
		case "384":
			return crypto.SHA384
		case "512":
			return crypto.SHA512
		}
		return 0
	}
	if len(alg) != 5 && alg != "EdDSA" {
		return false
	}
	switch k := pub.(type) {
	case *rsa.PublicKey:
		h := hashOf(alg[2:])
		if h == 0 {
			return false
		}
		switch alg[:2] {
		case "RS":
			return rsa.VerifyPKCS1v15(k, h, digestFor(h, input), sig) == nil
		case "PS":
			return rsa.VerifyPSS(k, h, digestFor(h, input), sig, nil) == nil
		}
		return false
	case *ecdsa.PublicKey:
		if alg[:2] != "ES" {
			return false
		}
		h := hashOf(alg[2:])
		size := map[string]int{"256": 32, "384": 48, "512": 66}[alg[2:]]
		if h == 0 || len(sig) != 2*size {
			return false
		}
		return ecdsa.Verify(k, digestFor(h, input), new(big.Int).SetBytes(sig[:size]), new(big.Int).SetBytes(sig[size:]))
	case ed25519.PublicKey:
		return alg == "EdDSA" && ed25519.Verify(k, input, sig)
	}
	return false
}

// jwsPlanVerify: the Lean model's plan (Model/JwsVerify.lean `verifyPlan`: which primitive, which hash, the signature in the primitive's
// format) for alg / key kind / signature, carried out with the crypto oracle the COSE verifier uses (sigVerify) over input
func jwsPlanVerify(c *Ctx, pub any, algHex string, input []byte, sigHex string) bool {
	km := keyMat(pub)
	plan := c.Call(M{"op": "jws.verifyPlan", "alg": algHex, "key": km, "sig": sigHex})
	switch plan["plan"] {
	case "primitive":
		return sigVerify(plan["scheme"].(string), crypto.Hash(int(num(plan["hash"]))), km, input, unhx(plan["sig"].(string)))
	case "opaque":
		// a key kind the certificate view does not describe: the model leaves it to go-jose; compared against the standard library alone
		return jwsIndepVerify(pub, string(unhx(algHex)), input, unhx(sigHex))
	}
	return false
}

// jwsAlgOf: the JWS algorithm a harness key signs with
func jwsAlgOf(r *RNG, k *KeyPair) string {
	switch k.Kind {
	case "ec":
		return []string{"", "ES256", "ES384", "ES512"}[k.Crv]
	case "ed":
		return "EdDSA"
	}
	return pick(r, []string{"RS256", "RS256", "RS256", "PS256", "RS384", "PS512"})
}

// jwsSign: the JWS signature value (ECDSA: fixed-width r||s)
func jwsSign(k *KeyPair, alg string, input []byte) []byte {
	var h crypto.Hash
	switch {
	case strings.HasSuffix(alg, "256"):
		h = crypto.SHA256
	case strings.HasSuffix(alg, "384"):
		h = crypto.SHA384
	case strings.HasSuffix(alg, "512"):
		h = crypto.SHA512
	}
	switch k.Kind {
	case "ec":
		rr, ss, err := ecdsa.Sign(rand.Reader, k.EC, digestFor(h, input))
		if err != nil {
			panic(err)
		}
		size := (k.EC.Curve.Params().BitSize + 7) / 8
		return append(fixed(rr, size), fixed(ss, size)...)
	case "ed":
		return ed25519.Sign(k.Ed, input)
	}
	var sig []byte
	var err error
	if strings.HasPrefix(alg, "PS") {
		sig, err = rsa.SignPSS(rand.Reader, k.RSA, h, digestFor(h, input), &rsa.PSSOptions{SaltLength: rsa.PSSSaltLengthEqualsHash})
	} else {
		sig, err = rsa.SignPKCS1v15(rand.Reader, k.RSA, h, digestFor(h, input))
	}
	if err != nil {
		panic(err)
	}
	return sig
}

// jwsQ writes s as a JSON string literal escaping only what the grammar demands (bytes >= 0x80 are written as they are)
func jwsQ(s string) string {
	var sb strings.Builder
	sb.WriteByte('"')
	for i := 0; i < len(s); i++ {
		switch b := s[i]; {
		case b == '"' || b == '\\':
			sb.WriteByte('\\')
			sb.WriteByte(b)
		case b < 0x20:
			fmt.Fprintf(&sb, `\u%04x`, b)
		default:
			sb.WriteByte(b)
		}
	}
	sb.WriteByte('"')
	return sb.String()
}

// jwsEscapeSome rewrites some characters of a JSON string literal's content as escapes the decoder resolves to the same string
func jwsEscapeSome(r *RNG, s string) string {
	var sb strings.Builder
	sb.WriteByte('"')
	for i := 0; i < len(s); i++ {
		b := s[i]
		switch {
		case b == '/' && r.Bool():
			sb.WriteString(`\/`)
		case b < 0x80 && b >= 0x20 && b != '"' && b != '\\' && r.P(1, 8):
			fmt.Fprintf(&sb, pick(r, []string{`\u%04x`, `\u%04X`}), b)
		case b == '"' || b == '\\':
			sb.WriteByte('\\')
			sb.WriteByte(b)
		default:
			sb.WriteByte(b)
		}
	}
	sb.WriteByte('"')
	return sb.String()
}

// jwsGenString: a JSON string literal of any kind (escapes, surrogates, invalid UTF-8, sometimes malformed)
func jwsGenString(r *RNG) string {
	var sb strings.Builder
	sb.WriteByte('"')
	n := r.Intn(6)
	for i := 0; i < n; i++ {
		switch r.Intn(14) {
		case 0:
			sb.WriteString(pick(r, []string{`\"`, `\\`, `\/`, `\b`, `\f`, `\n`, `\r`, `\t`}))
		case 1:
			sb.WriteString(fmt.Sprintf(`\u%04x`, r.Intn(0x10000)))
		case 2:
			sb.WriteString(fmt.Sprintf(`\u%04X\u%04x`, 0xD800+r.Intn(0x400), 0xDC00+r.Intn(0x400)))
		case 3:
			sb.WriteString(fmt.Sprintf(`\u%04x`, 0xD800+r.Intn(0x800)))
		case 4:
			sb.WriteString(pick(r, []string{"é", "日本", "😀", "\u00a0", "�"}))
		case 5:
			sb.Write([]byte{byte(0x80 + r.Intn(0x80))})
		case 6:
			sb.Write(pick(r, [][]byte{{0xc0, 0x80}, {0xe0, 0x80, 0x80}, {0xed, 0xa0, 0x80}, {0xf4, 0x90, 0x80, 0x80}, {0xe2, 0x82}, {0xc3}}))
		case 7:
			sb.WriteString(pick(r, []string{`\'`, `\x41`, `\u12`, "\x01", "\n", `\`})) // not JSON
		default:
			sb.WriteByte(byte('a' + r.Intn(26)))
		}
	}
	sb.WriteByte('"')
	return sb.String()
}

// the least decimal integer strconv.ParseFloat rounds to +Inf: 2^1024 - 2^970
var jwsFloatBound = new(big.Int).Sub(new(big.Int).Lsh(big.NewInt(1), 1024), new(big.Int).Lsh(big.NewInt(1), 970))

func jwsGenNumber(r *RNG) string {
	switch r.Intn(8) {
	case 0:
		return pick(r, []string{"0", "-0", "1", "-1", "7", "255", "256", "1.0", "1e2", "1E+2", "1e-2", "0.5", "-1.5e+3"})
	case 1:
		return pick(r, []string{"9223372036854775807", "9223372036854775808", "-9223372036854775808", "-9223372036854775809", "18446744073709551616", "123456789012345678901234567890"})
	case 2:
		return pick(r, []string{"1e308", "1e309", "-1e309", "1.7976931348623157e308", "1.7976931348623158e308", "1.7976931348623159e308", "1e999", "-1e999", "0e999", "0.0e99999999999999999999", "1e-999", "1e-99999999999999999999",
			"1e99999999999999999999", "0.0000000001e318", "0.0000000001e319", "17976931348623158e292", "17976931348623159e292", "179769313486231580e291", "1797693134862315.9e293", "0.17976931348623158e309", "0.17976931348623159e309"})
	case 3:
		// around the overflow threshold, written out in full, with or without a fraction and an exponent that cancels it
		d := new(big.Int).Add(jwsFloatBound, big.NewInt(int64(r.Intn(5)-2)))
		s := d.String()
		switch r.Intn(5) {
		case 0:
			return s
		case 1:
			return s + pick(r, []string{".0", ".5", ".99999", ".00000000000000000001"})
		case 2:
			k := 1 + r.Intn(40)
			return s[:len(s)-k] + "." + s[len(s)-k:] + fmt.Sprintf("e%d", k)
		case 3:
			k := 1 + r.Intn(40)
			return s + strings.Repeat("0", k) + fmt.Sprintf("e-%d", k)
		default:
			return "-" + s
		}
	case 4:
		// random 17..20 significant digits near the largest float64
		s := "1797693134862315" + fmt.Sprint(r.Intn(100000))
		return s[:1] + "." + s[1:] + pick(r, []string{"e308", "E308", "e+308", "e307", "e309"})
	case 5:
		return pick(r, []string{"01", "1.", "+1", ".5", "1e", "1e+", "--1", "0x1", "1.e1", "-", "Infinity", "NaN", "1_0"}) // not JSON
	default:
		return fmt.Sprint(r.Intn(2000) - 1000)
	}
}

// jwsGenValue: any JSON value, including objects that repeat a member name (directly, through escapes, through invalid UTF-8)
func jwsGenValue(r *RNG, depth int) string {
	switch r.Intn(10) {
	case 0:
		return "null"
	case 1:
		return pick(r, []string{"true", "false"})
	case 2, 3:
		return jwsGenNumber(r)
	case 4:
		if depth > 2 {
			return "[]"
		}
		var parts []string
		for i := r.Intn(4); i > 0; i-- {
			parts = append(parts, jwsGenValue(r, depth+1))
		}
		return "[" + strings.Join(parts, pick(r, []string{",", " , ", ",\n"})) + "]"
	case 5, 6:
		if depth > 2 {
			return "{}"
		}
		var parts []string
		for i := r.Intn(4); i > 0; i-- {
			k := pick(r, []string{`"a"`, `"a"`, `"b"`, `"a"`, `"A"`, `""`, "\"\xff\"", "\"\xfe\"", `"�"`, `"\ud800"`, `"alg"`, jwsGenString(r)})
			parts = append(parts, k+pick(r, []string{":", " : "})+jwsGenValue(r, depth+1))
		}
		return "{" + strings.Join(parts, ",") + "}"
	case 7:
		return pick(r, []string{"tru", "True", "nul", "NULL", "fals", "nil", "'x'", "", "{", "[", "}", "[1,]", "{\"a\"}", "{\"a\":}", "{,}", "[,]", "{\"a\":1,}"})
	default:
		return jwsGenString(r)
	}
}

var jwsSpaces = []string{" ", "\n", "\t", "\r", "\r\n", "\v", "\f", "\u0085", "\u00a0", "\u1680", "\u2000", "\u2003", "\u200a", "\u2028", "\u2029", "\u202f", "\u205f", "\u3000"}

// runes and bytes that look like white space but are not unicode.IsSpace, or are not UTF-8 at all
var jwsNearSpaces = []string{"\u200b", "\u180e", "\ufeff", "\u2060", "\u00ad", "\x00", "\xc2", "\xa0", "\x85", "\xe2\x80", "\xe3\x80", "\xc2\x20", "\xed\xa0\x80", "\xc0\xa0", "�", "\u2007\u0301"}

// jwsSprinkle inserts n of the given pieces at random positions of s (positions of the original string: a piece never lands inside another)
func jwsSprinkle(r *RNG, s string, what []string, n int) string {
	at := map[int][]string{}
	for i := 0; i < n; i++ {
		k := r.Intn(len(s) + 1)
		at[k] = append(at[k], pick(r, what))
	}
	var sb strings.Builder
	for k := 0; k <= len(s); k++ {
		for _, w := range at[k] {
			sb.WriteString(w)
		}
		if k < len(s) {
			sb.WriteByte(s[k])
		}
	}
	return sb.String()
}

type jwsKV struct{ k, v string }

func jwsObject(r *RNG, kvs []jwsKV, shuffle bool) string {
	ws := func() string { return pick(r, []string{"", "", "", "", " ", "\n", "\t", "\r\n "}) }
	idx := make([]int, len(kvs))
	for i := range idx {
		idx[i] = i
	}
	if shuffle {
		idx = r.Perm(len(kvs))
	}
	var parts []string
	for _, i := range idx {
		parts = append(parts, ws()+kvs[i].k+ws()+":"+ws()+kvs[i].v+ws())
	}
	return ws() + "{" + strings.Join(parts, ",") + "}" + ws()
}

func jwsShort(s string) string {
	s = strings.ToValidUTF8(s, "?")
	s = strings.Map(func(r rune) rune {
		if r < 0x20 {
			return '~'
		}
		return r
	}, s)
	if len(s) > 28 {
		return s[:25] + "..."
	}
	return s
}

func init() {
	// ---------------------------------------------------------------- executors ----------------------------------------------------------------
	executors["jws.parse"] = func(c *Ctx, stream string, op M) {
		raw := unhx(op["raw"].(string))
		model := c.Call(M{"op": "jws.parse", "raw": op["raw"]})
		delete(model, "id")
		status, _ := model["status"].(string)
		dev, _ := op["_dev"].(string)
		if status == "unmodelled" {
			c.Unmodelled(stream)
			return
		}
		mv := M{} // what the model (plus x509.ParseCertificate on its x5c entries) says the implementation's observables are
		var modelCerts []*x509.Certificate
		var modelX5c [][]byte
		allCerts := true
		if status == "ok" {
			modelX5c = hexList(model["x5c"])
			for _, der := range modelX5c {
				cert, err := x509.ParseCertificate(der)
				if err != nil {
					allCerts = false
					break
				}
				modelCerts = append(modelCerts, cert)
			}
		}
		parsed := status == "ok" && allCerts
		mv["parsed"] = parsed
		if _, has := model["model_error"]; has {
			mv["model_error"] = model["model_error"]
		}
		var pub any
		if p, ok := op["_pub"].(string); ok {
			k, err := x509.ParsePKIXPublicKey(unhx(p))
			if err != nil {
				panic(err)
			}
			pub = k
		}
		if parsed {
			mv["nsig"] = 1
			mv["payload"] = model["payload"]
			mv["signature"] = model["signature"]
			mv["alg"] = model["alg"]
			mv["nocerts"] = len(modelCerts) == 0
			if pub != nil {
				verifiable, _ := model["verifiable"].(bool)
				mv["verify"] = verifiable && jwsPlanVerify(c, pub, model["alg"].(string), unhx(model["signingInput"].(string)), model["signature"].(string))
			}
		}
		impl := guard(func() M {
			sig, err := jose.ParseSigned(string(raw))
			if err != nil {
				return M{"parsed": false}
			}
			out := M{"parsed": true, "nsig": len(sig.Signatures), "payload": hx(sig.UnsafePayloadWithoutVerification())}
			if len(sig.Signatures) != 1 {
				return out
			}
			out["signature"] = hx(sig.Signatures[0].Signature)
			out["alg"] = hx([]byte(sig.Signatures[0].Header.Algorithm))
			pool := x509.NewCertPool()
			for _, cert := range modelCerts {
				pool.AddCert(cert)
			}
			chains, err := sig.Signatures[0].Header.Certificates(x509.VerifyOptions{Roots: pool, KeyUsages: []x509.ExtKeyUsage{x509.ExtKeyUsageAny}})
			out["nocerts"] = err != nil && strings.Contains(err.Error(), "no x5c header")
			if err == nil && len(chains) > 0 && len(chains[0]) > 0 {
				out["leaf"] = hx(chains[0][0].Raw)
			}
			if pub != nil {
				_, err := sig.Verify(pub)
				out["verify"] = err == nil
			}
			return out
		})
		if _, has := impl["leaf"]; has && parsed && len(modelX5c) > 0 {
			mv["leaf"] = hx(modelX5c[0])
		}
		// ground truth of generated inputs: the certificate list the token was built from
		if truth, ok := op["_x5c"]; ok {
			impl["x5c"] = normalize(truth)
			if status == "ok" {
				mv["x5c"] = model["x5c"]
			} else {
				mv["x5c"] = "status " + status
			}
			if l, _ := normalize(truth).([]any); len(l) == 0 {
				impl["x5c"] = []any{}
				if l2, _ := mv["x5c"].([]any); status == "ok" && len(l2) == 0 {
					mv["x5c"] = []any{}
				}
			}
		}
		class := "error"
		if ok, _ := impl["parsed"].(bool); ok {
			class = fmt.Sprintf("ok-x5c%d", len(modelX5c))
			if _, has := impl["leaf"]; has {
				class += "-leaf" // Header.Certificates returned a chain: its first certificate is compared with the model's first entry
			}
			if v, has := impl["verify"]; has {
				class += fmt.Sprintf("-verify=%v", v)
			}
		} else if status == "ok" {
			class = "error-x5c-not-a-certificate"
		}
		c.Compare(stream, op, impl, mv, class+"/"+dev, len(raw) > 2)
	}
	executors["jws.claims"] = func(c *Ctx, stream string, op M) {
		payload := unhx(op["payload"].(string))
		model := c.Call(M{"op": "jws.claims", "payload": op["payload"]})
		delete(model, "id")
		impl := guard(func() M {
			var cl android.SafetyNetClaims
			if err := josejson.Unmarshal(payload, &cl); err != nil {
				return M{"ok": false}
			}
			return M{"ok": true, "nonce": hx(cl.Nonce)}
		})
		class := "error"
		if ok, _ := impl["ok"].(bool); ok {
			class = "ok"
			if impl["nonce"] != "" {
				class = "ok-nonce"
			}
		}
		dev, _ := op["_dev"].(string)
		c.Compare(stream, op, impl, model, class+"/"+dev, len(payload) > 1)
	}
	executors["b64.std"] = func(c *Ctx, stream string, op M) {
		s := unhx(op["s"].(string))
		model := c.Call(M{"op": "b64.std", "s": op["s"]})
		delete(model, "id")
		impl := guard(func() M {
			b, err := base64.StdEncoding.DecodeString(string(s))
			if err != nil {
				return M{"ok": false}
			}
			return M{"ok": true, "b": hx(b)}
		})
		class := "error"
		if ok, _ := impl["ok"].(bool); ok {
			class = "ok"
		}
		dev, _ := op["_dev"].(string)
		c.Compare(stream, op, impl, model, "b64.std-"+class+"/"+dev, len(s) > 0)
	}
	executors["jws.strip"] = func(c *Ctx, stream string, op M) {
		s := unhx(op["s"].(string))
		model := c.Call(M{"op": "jws.strip", "s": op["s"]})
		delete(model, "id")
		impl := guard(func() M { return M{"b": hx([]byte(jwsRefStrip(string(s))))} })
		class := "unchanged"
		if impl["b"] != op["s"] {
			class = "changed"
		}
		dev, _ := op["_dev"].(string)
		c.Compare(stream, op, impl, model, "strip-"+class+"/"+dev, len(s) > 0)
	}

	// ---------------------------------------------------------------- generators ----------------------------------------------------------------
	type certEntry struct {
		der []byte
		key *KeyPair
	}
	makeCerts := func(r *RNG) []certEntry {
		var out []certEntry
		for _, a := range []int{algRS256, algES256, algES256, algES384, algEdDSA, algRS256, algES512} {
			k := genKeyPair(r, a)
			if k.Kind == "ec" {
				// the JWS algorithm is tied to the curve
				k = genKeyPairOnCurve(r, a, map[int]int{algES256: 1, algES384: 2, algES512: 3}[a], false)
			}
			out = append(out, certEntry{selfSigned(k, "attest.android.com"), k})
		}
		return out
	}
	honestClaims := func(r *RNG) []jwsKV {
		return []jwsKV{
			{`"nonce"`, jwsQ(stdB64(r.Bytes(32)))},
			{`"timestampMs"`, fmt.Sprint(1600000000000 + int64(r.Intn(1000000000)))},
			{`"apkPackageName"`, `"com.google.android.gms"`},
			{`"apkCertificateDigestSha256"`, `[` + jwsQ(stdB64(r.Bytes(32))) + `]`},
			{`"ctsProfileMatch"`, pick(r, []string{"true", "false"})},
			{`"basicIntegrity"`, pick(r, []string{"true", "false"})},
			{`"evaluationType"`, `"BASIC,HARDWARE_BACKED"`},
		}
	}

	// one protected header: its members, a label, the x5c list it denotes when it is well formed (nil = not claimed), and whether it says "b64": false
	type hdrSpec struct {
		text  string
		dev   string
		truth [][]byte
		known bool // truth is meaningful
		b64   bool
	}
	genHeader := func(r *RNG, certs []certEntry, alg string, leaf []byte) hdrSpec {
		nExtra := pick(r, []int{0, 1, 1, 1, 2, 3})
		chain := [][]byte{}
		if leaf != nil {
			chain = append(chain, leaf)
		} else {
			nExtra = pick(r, []int{0, 0, 1, 2})
		}
		for i := 0; i < nExtra; i++ {
			chain = append(chain, pick(r, certs).der)
		}
		x5cText := func(ch [][]byte) string {
			var parts []string
			for _, d := range ch {
				parts = append(parts, jwsQ(stdB64(d)))
			}
			return "[" + strings.Join(parts, ",") + "]"
		}
		kvs := []jwsKV{{`"alg"`, jwsQ(alg)}, {`"x5c"`, x5cText(chain)}}
		h := hdrSpec{dev: "honest", truth: chain, known: true, b64: true}
		set := func(key, v string) {
			for i := range kvs {
				if kvs[i].k == key {
					kvs[i].v = v
					return
				}
			}
			kvs = append(kvs, jwsKV{key, v})
		}
		drop := func(key string) {
			for i := range kvs {
				if kvs[i].k == key {
					kvs = append(kvs[:i], kvs[i+1:]...)
					return
				}
			}
		}
		shuffle := true
		switch r.Intn(24) {
		case 0, 1, 2, 3:
			// honest
		case 4:
			// x5c of another shape
			v := pick(r, []string{`[]`, `[null]`, `[""]`, `null`, `"AAAA"`, `5`, `{}`, `true`, `[5]`, `[true]`, `[[]]`, `[{}]`, `["!"]`, `["AAAA"]`, `["AA"]`, `["AA=="]`, `["A"]`, `["AAAA===="]`, `[ ]`, ` [ null , null ] `})
			set(`"x5c"`, v)
			h.dev = "x5c=" + v
			h.known = false
			switch v {
			case `[]`, `null`, `[ ]`:
				h.truth, h.known = [][]byte{}, true
			case `[null]`, `[""]`:
				h.truth, h.known = [][]byte{{}}, true
			case ` [ null , null ] `:
				h.truth, h.known = [][]byte{{}, {}}, true
			case `["AAAA"]`:
				h.truth, h.known = [][]byte{{0, 0, 0}}, true
			case `["AA=="]`:
				h.truth, h.known = [][]byte{{0}}, true
			}
		case 5:
			// one entry of the list replaced
			if len(chain) > 0 {
				i := r.Intn(len(chain))
				var parts []string
				for _, d := range chain {
					parts = append(parts, jwsQ(stdB64(d)))
				}
				k := pick(r, []string{"null", "empty", "number", "garbage-der", "url-alphabet", "no-padding", "bad-char", "trailing", "object", "truncated-der"})
				h.dev = "x5c-entry-" + k
				h.known = false
				switch k {
				case "null":
					parts[i] = "null"
				case "empty":
					parts[i] = `""`
				case "number":
					parts[i] = "7"
				case "garbage-der":
					parts[i] = jwsQ(stdB64(r.Bytes(1 + r.Intn(40))))
				case "url-alphabet":
					parts[i] = jwsQ(strings.NewReplacer("+", "-", "/", "_").Replace(stdB64(chain[i])))
				case "no-padding":
					parts[i] = jwsQ(strings.TrimRight(stdB64(append(append([]byte{}, chain[i]...), make([]byte, (3-len(chain[i])%3)%3+1)...)), "="))
				case "bad-char":
					parts[i] = jwsQ(jwsSprinkle(r, stdB64(chain[i]), []string{" ", "!", "\t", "=", "\u00a0", "."}, 1))
				case "trailing":
					parts[i] = jwsQ(stdB64(chain[i][:(len(chain[i])-1)/3*3+1]) + pick(r, []string{"A", "=", "AAAA", " "}))
				case "object":
					parts[i] = `{"a":1}`
				case "truncated-der":
					parts[i] = jwsQ(stdB64(chain[i][:r.Intn(len(chain[i]))]))
				}
				set(`"x5c"`, "["+strings.Join(parts, ",")+"]")
			}
		case 6:
			// the same list written differently: escapes, CR/LF inside the base64 text, white space between elements
			var parts []string
			for _, d := range chain {
				s := stdB64(d)
				switch r.Intn(3) {
				case 0:
					parts = append(parts, jwsEscapeSome(r, s))
				case 1:
					// PEM-style line breaks, as JSON escapes
					var sb strings.Builder
					for i := 0; i < len(s); i += 64 {
						e := i + 64
						if e > len(s) {
							e = len(s)
						}
						sb.WriteString(s[i:e])
						sb.WriteString(pick(r, []string{`\n`, `\r\n`, `\u000a`, `\r`}))
					}
					parts = append(parts, `"`+sb.String()+`"`)
				default:
					parts = append(parts, jwsQ(s))
				}
			}
			set(`"x5c"`, "[ "+strings.Join(parts, " ,\n")+" ]")
			h.dev = "x5c-rewritten"
		case 7:
			v := pick(r, []string{`5`, `null`, `["RS256"]`, `{}`, `true`, `""`, `"none"`, `"HS256"`, `"RS256"`, "\"RS\xff\"", `"\ud800"`, `"rs256"`, `1e999`})
			h.dev = "alg=" + v
			if r.P(1, 3) {
				// any string literal: what Header.Algorithm holds shows how the fork unquotes it
				v = jwsGenString(r)
				h.dev = "alg=random-string"
			}
			set(`"alg"`, v)
			if v != `null` && v[0] != '"' || h.dev == "alg=random-string" {
				h.known = false
			}
		case 8:
			drop(`"alg"`)
			h.dev = "alg-absent"
		case 9:
			k := pick(r, []string{`"kid"`, `"nonce"`})
			v := pick(r, []string{`"x"`, `""`, `null`, `5`, `[]`, `{}`, `true`, `"é😀"`, `["a"]`})
			set(k, v)
			h.dev = k[1:len(k)-1] + "=" + v
			if v != `null` && v[0] != '"' {
				h.known = false
			}
		case 10:
			v := pick(r, []string{`null`, `null`, `5`, `{}`, `{"kty":"EC"}`, `"x"`, `{"kty":"EC","crv":"P-256","x":"AA","y":"AA"}`})
			set(`"jwk"`, v)
			h.dev = "jwk=" + v
			h.known = v == `null`
		case 11:
			// a repeated member name
			k := pick(r, []string{"alg", "x5c", "typ", "kid", "zzz"})
			first := `"` + k + `"`
			second := pick(r, []string{first, first, fmt.Sprintf(`"\u%04x%s"`, k[0], k[1:]), fmt.Sprintf(`"%s\u%04X"`, k[:len(k)-1], k[len(k)-1])})
			val := map[string]string{"alg": jwsQ(alg), "x5c": x5cText(chain), "typ": `"JWT"`, "kid": `"k"`, "zzz": "1"}[k]
			set(first, val)
			kvs = append(kvs, jwsKV{second, pick(r, []string{val, "null", "0"})})
			h.dev = "dup-" + k
			h.known = false
		case 12:
			// names that differ from a registered one (the fork compares exact bytes) or collide only after coercion of invalid UTF-8
			k := pick(r, []string{`"Alg"`, `"ALG"`, `"X5C"`, `"x5C"`, `"alg "`, `"Jwk"`, `"KID"`, `"alg"`, `"x5c"`})
			v := pick(r, []string{`5`, `"x"`, `[1]`, `null`})
			h.dev = "name=" + k
			switch k {
			case `"alg"`:
				drop(`"alg"`)
				kvs = append(kvs, jwsKV{k, jwsQ(alg)})
			case `"x5c"`:
				drop(`"x5c"`)
				kvs = append(kvs, jwsKV{k, x5cText(chain)})
			default:
				kvs = append(kvs, jwsKV{k, v})
			}
		case 13:
			kvs = append(kvs, jwsKV{"\"\xff\"", "1"}, jwsKV{pick(r, []string{"\"\xfe\"", `"�"`, `"\ud800"`, "\"\xff\xff\"", "\"\xc3\""}), "2"})
			h.dev = "dup-after-utf8-coercion"
			h.known = false
		case 14, 15:
			// members the library does not know: decoded into interface{}
			n := 1 + r.Intn(3)
			h.dev = "extra"
			for i := 0; i < n; i++ {
				k := pick(r, []string{`"typ"`, `"cty"`, `"iat"`, `"exp"`, `"x"`, `""`, `"enc"`, `"zip"`, `"p2c"`, `"epk"`, `"apu"`})
				v := pick(r, []string{`"JWT"`, jwsGenValue(r, 0), jwsGenValue(r, 0)})
				dup := false
				for _, e := range kvs {
					dup = dup || e.k == k
				}
				if !dup {
					kvs = append(kvs, jwsKV{k, v})
				}
			}
			h.known = false // the values may be malformed, overflow a float64, or repeat a name
		case 16:
			v := pick(r, []string{`["b64"]`, `[]`, `["exp"]`, `"b64"`, `[null]`, `null`, `[1]`, `{}`, `["b64","b64"]`, `["b64","x"]`, `["b4"]`, `["b64"]`, `["B64"]`, `5`, `[[]]`, `true`, `[""]`})
			set(`"crit"`, v)
			h.dev = "crit=" + v
		case 17:
			v := pick(r, []string{`false`, `false`, `true`, `null`, `"false"`, `0`, `[]`, `{}`, `[false]`})
			set(`"b64"`, v)
			h.dev = "b64=" + v
			h.b64 = v != `false`
			if r.Bool() {
				set(`"crit"`, `["b64"]`)
				h.dev += "+crit"
			}
		case 18:
			// the header is not an object
			h.text = pick(r, []string{`null`, ` null `, `[]`, `"x"`, `1`, `true`, `{}`, ` { } `, ``, ` `, `nul`, `{`, `[{}]`, `{}{}`, `{} x`, `{}]`, "{}\x00", `{"alg":"RS256"`, `{"alg":"RS256",}`, `{alg:"RS256"}`, `{'alg':'RS256'}`})
			h.dev = "header=" + h.text
			h.known = false
			switch h.text {
			case "null", " null ", "{}", " { } ", "":
				h.truth, h.known = [][]byte{}, true
			}
			return h
		case 19:
			// trailing data / truncation of an honest header
			h.text = jwsObject(r, kvs, true)
			switch r.Intn(3) {
			case 0:
				h.text += pick(r, []string{"x", "{}", ",", "\x00", "]", " null", "}", "\u00a0", "\v"})
				h.dev = "header-trailing-data"
			case 1:
				h.text = h.text[:r.Intn(len(h.text))]
				h.dev = "header-truncated"
			default:
				h.text = pick(r, []string{"\ufeff", "\x00", "\v", "\u00a0", "x"}) + h.text
				h.dev = "header-leading-data"
			}
			h.known = false
			return h
		case 20:
			// mutated header text
			h.text = string(mutate(r, []byte(jwsObject(r, kvs, true))))
			h.dev = "header-mutated"
			h.known = false
			return h
		case 21:
			// a nested repeated name inside a member the library decodes into interface{}; inside x5c it is a type error anyway
			v := pick(r, []string{`{"a":1,"a":2}`, `[{"a":1,"a":2}]`, `{"a":{"b":1,"b":1}}`, `{"a":1,"a":2}`, `{"a":1,"A":2}`, `[{"a":1},{"a":2}]`, `{"":1,"":2}`, `[[[{"k":[],"k":[]}]]]`})
			set(pick(r, []string{`"typ"`, `"x"`, `"crit"`, `"b64"`}), v)
			h.dev = "nested=" + v
			h.known = false
		case 22:
			set(pick(r, []string{`"iat"`, `"x"`}), jwsGenNumber(r))
			h.dev = "extra-number"
			h.known = false
		case 23:
			shuffle = false
			kvs = []jwsKV{{`"alg"`, jwsQ(alg)}}
			h.truth = [][]byte{}
			h.dev = "no-x5c"
		}
		h.text = jwsObject(r, kvs, shuffle)
		return h
	}

	// how the three parts are put together
	assemble := func(r *RNG, prot, payload, sig []byte) (string, string) {
		p0, p1, p2 := b64u(prot), b64u(payload), b64u(sig)
		pad := func(s string) string {
			return s + strings.Repeat("=", (4-len(s)%4)%4)
		}
		switch r.Intn(22) {
		case 0:
			return pad(p0) + "." + pad(p1) + "." + pad(p2), "padded"
		case 1:
			return p0 + pick(r, []string{"=", "==", "====", "========="}) + "." + p1 + pick(r, []string{"", "=", "==="}) + "." + p2 + pick(r, []string{"", "=", "====="}), "over-padded"
		case 2:
			return jwsSprinkle(r, p0+"."+p1+"."+p2, jwsSpaces, 1+r.Intn(6)), "whitespace"
		case 3:
			return jwsSprinkle(r, pad(p0)+"."+pad(p1)+"."+pad(p2), jwsSpaces, 1+r.Intn(6)), "padded+whitespace"
		case 4:
			return jwsSprinkle(r, p0+"."+p1+"."+p2, jwsNearSpaces, 1), "near-whitespace"
		case 5:
			return pick(r, jwsSpaces) + p0 + "." + p1 + "." + p2 + pick(r, jwsSpaces), "whitespace-around"
		case 6:
			switch r.Intn(5) {
			case 0:
				return p0 + "." + p1, "two-parts"
			case 1:
				return p0 + "." + p1 + "." + p2 + "." + pick(r, []string{"", p2, "AA"}), "four-parts"
			case 2:
				return p0 + p1 + p2, "one-part"
			case 3:
				return p0 + ".." + p1 + "." + p2, "four-parts"
			default:
				return p0 + "." + p1 + "." + p2 + ".", "four-parts"
			}
		case 7:
			switch r.Intn(4) {
			case 0:
				return "." + p1 + "." + p2, "empty-protected"
			case 1:
				return p0 + ".." + p2, "empty-payload"
			case 2:
				return p0 + "." + p1 + ".", "empty-signature"
			default:
				return pick(r, []string{"..", "=.=.=", ".=.", "==..", " . . ", "....", ".", ""}), "empty-everything"
			}
		case 8:
			// one part with a character outside the URL alphabet, or padding inside
			parts := []string{p0, p1, p2}
			i := r.Intn(3)
			parts[i] = jwsSprinkle(r, parts[i], []string{"+", "/", "=", "!", "%", "*", "é", "\x80", "~", ","}, 1)
			return strings.Join(parts, "."), "bad-character"
		case 9:
			// one part of impossible length (4k+1 characters), or cut / extended by one character
			parts := []string{p0, p1, p2}
			i := r.Intn(3)
			switch r.Intn(3) {
			case 0:
				if len(parts[i]) > 0 {
					parts[i] = parts[i][:len(parts[i])-1]
				}
			case 1:
				parts[i] += "A"
			default:
				parts[i] = parts[i][:len(parts[i])/4*4] + "A"
			}
			return strings.Join(parts, "."), "part-length"
		case 10:
			return pick(r, []string{"{", " {", "\n{\"payload\":\"\"}", "{\"payload\":\"e30\",\"protected\":\"e30\",\"signature\":\"AA\"}", "\u2028{}", "{" + p0 + "." + p1 + "." + p2}), "json-serialisation"
		case 11:
			// standard instead of URL alphabet in the signature
			return p0 + "." + p1 + "." + base64.RawStdEncoding.EncodeToString(sig), "std-alphabet-signature"
		default:
			return p0 + "." + p1 + "." + p2, "plain"
		}
	}

	runParse := func(c *Ctx, raw string, dev string, truth [][]byte, known bool, pub crypto.PublicKey) {
		op := M{"op": "jws.parse", "raw": hx([]byte(raw)), "_dev": dev}
		if known {
			l := []string{}
			for _, d := range truth {
				l = append(l, hx(d))
			}
			op["_x5c"] = l
		}
		if pub != nil {
			der, err := x509.MarshalPKIXPublicKey(pub)
			if err != nil {
				panic(err)
			}
			op["_pub"] = hx(der)
		}
		executors["jws.parse"](c, "jws.structures", op)
	}

	jwsStreams := []Stream{
		{"jws.structures", func(c *Ctx) {
			r := c.R
			certs := makeCerts(r)
			var valid []string // tokens that parsed, as mutation seeds
			n := c.N(2500, 120000)
			for i := 0; i < n; i++ {
				ce := pick(r, certs)
				alg := jwsAlgOf(r, ce.key)
				var leaf []byte
				if r.P(5, 6) {
					leaf = ce.der
				}
				h := genHeader(r, certs, alg, leaf)
				var payload []byte
				switch r.Intn(8) {
				case 0:
					payload = r.Bytes(r.Intn(40))
				case 1:
					payload = nil
				default:
					payload = []byte(jwsObject(r, honestClaims(r), true))
				}
				prot := []byte(h.text)
				// the signature go-jose will accept: over base64url(protected) "." base64url(payload) (the payload itself under "b64": false)
				input := b64u(prot) + "."
				if h.b64 {
					input += b64u(payload)
				} else {
					input += string(payload)
				}
				signAlg := alg
				signKey := ce.key
				// one deviation at a time: the signature is tampered with only under headers that would otherwise verify
				plainHeader := h.dev == "honest" || h.dev == "x5c-rewritten" || h.dev == "no-x5c"
				sdev := ""
				if plainHeader {
					switch r.Intn(12) {
					case 0:
						// signed by another key
						signKey = pick(r, certs).key
						signAlg = jwsAlgOf(r, signKey)
						if signKey != ce.key {
							sdev = "signed-by-other-key"
						}
					case 1:
						// signed over something else
						input = pick(r, []string{input + " ", b64u(prot) + "." + string(payload), base64.StdEncoding.EncodeToString(prot) + "." + base64.StdEncoding.EncodeToString(payload), strings.ToUpper(input)})
						sdev = "signed-other-input"
					}
				}
				sig := jwsSign(signKey, signAlg, []byte(input))
				if plainHeader && sdev == "" {
					switch r.Intn(14) {
					case 0:
						sig = mutate(r, sig)
						sdev = "signature-mutated"
					case 1:
						if signKey.Kind == "ec" {
							// DER instead of r||s
							sig = signKey.SignAs(signKey.Alg, []byte(input))
							sdev = "signature-der"
						}
					}
				}
				var tok, adev string
				switch {
				case sdev != "":
					tok, adev = b64u(prot)+"."+b64u(payload)+"."+b64u(sig), "plain"
				case h.dev == "honest" || r.P(1, 4):
					tok, adev = assemble(r, prot, payload, sig)
				default:
					tok, adev = b64u(prot)+"."+b64u(payload)+"."+b64u(sig), "plain"
				}
				dev := h.dev
				if sdev != "" {
					dev = sdev
				}
				switch adev {
				case "plain":
				case "padded", "over-padded", "whitespace", "padded+whitespace", "whitespace-around":
					// the same token written differently
					if h.dev == "honest" {
						dev = adev
					}
				case "empty-payload", "empty-signature":
					if h.dev == "honest" {
						dev = adev
					} else {
						dev = h.dev + "+" + adev
					}
				default:
					// the header is not read at all, or not as written
					dev = adev
					h.known = false
				}
				runParse(c, tok, dev, h.truth, h.known, ce.key.Public())
				if adev == "plain" || adev == "padded" || adev == "whitespace" {
					if len(valid) < 64 {
						valid = append(valid, tok)
					} else {
						valid[r.Intn(64)] = tok
					}
				}
				// byte mutations of a generated token
				if i%4 == 0 && len(valid) > 0 {
					runParse(c, string(mutate(r, []byte(pick(r, valid)))), "token-mutated", nil, false, ce.key.Public())
				}
			}
			// small random strings over the token / JSON punctuation alphabet
			alphabet := []string{"{", "}", "[", "]", "\"", ":", ",", ".", "=", "\\", "a", "e", "0", "1", "-", "_", "+", "/", " ", "\n", "e30", "bnVsbA", "W10"}
			for i := 0; i < c.N(1500, 60000); i++ {
				var sb strings.Builder
				for k := r.Intn(9); k > 0; k-- {
					sb.WriteString(pick(r, alphabet))
				}
				runParse(c, sb.String(), "random-short", nil, false, nil)
			}
			// the header alone is a random string over the same alphabet
			for i := 0; i < c.N(1000, 60000); i++ {
				var sb strings.Builder
				for k := r.Intn(9); k > 0; k-- {
					sb.WriteString(pick(r, alphabet[:20]))
				}
				runParse(c, b64u([]byte(sb.String()))+".e30.AA", "random-header", nil, false, nil)
			}
			// every header text up to a bounded length over JSON punctuation, literal letters and three whole tokens
			exh := []string{"{", "}", "[", "]", "\"", ":", ",", "\\", "u", "0", "1", "-", ".", "e", "n", " ", `"x5c"`, `"alg"`, "null"}
			maxLen := c.N(3, 4)
			count := 0
			var rec func(prefix string, d int)
			rec = func(prefix string, d int) {
				runParse(c, b64u([]byte(prefix))+".e30.AA", "exhaustive-header", nil, false, nil)
				count++
				if d == 0 {
					return
				}
				for _, a := range exh {
					rec(prefix+a, d-1)
				}
			}
			rec("", maxLen)
			c.Res.mu.Lock()
			c.Res.Exhaustive = append(c.Res.Exhaustive, fmt.Sprintf("JWS protected header: all %d concatenations of at most %d symbols of a 19-symbol alphabet (JSON punctuation, literal letters, \"x5c\", \"alg\", null)", count, maxLen))
			c.Res.mu.Unlock()
		}},
		{"jws.claims", func(c *Ctx) {
			r := c.R
			run := func(s string, dev string) {
				executors["jws.claims"](c, "jws.claims", M{"op": "jws.claims", "payload": hx([]byte(s)), "_dev": dev})
			}
			nonceVals := []string{`null`, `[]`, `[1,2,3]`, `[null,5]`, `[255,0]`, `[256]`, `[-1]`, `[-0]`, `[1.0]`, `[1e0]`, `[0.0]`, `["a"]`, `[[1]]`, `[true]`, `[{}]`, `[99999999999999999999999]`, `[ 7 , 8 ]`,
				`5`, `-0`, `true`, `{}`, `{"a":1}`, `""`, `"AA"`, `"AA=="`, `"AA=\n="`, `"A\nA\r=="`, `"AA==\n"`, `"\r\nAA=="`, `"AA==A"`, `"AA==="`, `"AA-_"`, `"AB=="`, `"AAA="`, `"AAB="`, `"AAA"`, `"A"`, `"="`, `"===="`, `"AAAA===="`, `"AAAA"`,
				`"AAAA"`, `"AA\/A"`, `"AA A"`, `"AA\tA"`, "\"AA\xffA\"", `"A=AA"`, `"AA=A"`, `"=AAA"`, `"AAAAAA=="`, `"AAAAAAA="`, `"AAAAA==="`, `"AAAA\n"`, `"AAAAAAAAAAAAAAAAAAAAAAAAAAAAAAAAAAAAAAAAAAA="`, `"AAAAAAAAAAAAAAAAAAAAAAAAAAAAAAAAAAAAAAAAAAA"`, `"+/+/"`}
			tsVals := []string{`1`, `-1`, `0`, `-0`, `1.0`, `1e2`, `1E2`, `9223372036854775807`, `9223372036854775808`, `-9223372036854775808`, `-9223372036854775809`, `99999999999999999999`, `"1"`, `null`, `true`, `[]`, `[1]`, `{}`, `1e999`, `0.5`, `-1.5`}
			strVals := []string{`"x"`, `""`, `null`, `1`, `true`, `[]`, `{}`, `"\ud800"`, "\"\xff\"", `["x"]`}
			boolVals := []string{`true`, `false`, `null`, `"true"`, `1`, `0`, `[]`, `{}`, `[true]`}
			digVals := []string{`[]`, `null`, `["AAAA"]`, `["AAAA",null,[1,2],""]`, `"AAAA"`, `[1]`, `["!"]`, `[[256]]`, `{}`, `[{}]`, `[true]`, `[[]]`, `[[null]]`, `[["a"]]`, `[null]`, `["AA"]`, `[[1],[2,3]]`, `[[[1]]]`, `5`, `true`}
			fields := []string{"nonce", "timestampMs", "apkPackageName", "apkCertificateDigestSha256", "ctsProfileMatch", "basicIntegrity", "evaluationType"}
			valsOf := map[string][]string{"nonce": nonceVals, "timestampMs": tsVals, "apkPackageName": strVals, "evaluationType": strVals, "apkCertificateDigestSha256": digVals, "ctsProfileMatch": boolVals, "basicIntegrity": boolVals}
			set := func(kvs []jwsKV, key, v string) []jwsKV {
				for i := range kvs {
					if kvs[i].k == key {
						kvs[i].v = v
						return kvs
					}
				}
				return append(kvs, jwsKV{key, v})
			}
			n := c.N(4000, 200000)
			for i := 0; i < n; i++ {
				kvs := honestClaims(r)
				if r.P(1, 3) {
					// some members only
					keep := kvs[:0]
					for _, e := range kvs {
						if r.Bool() {
							keep = append(keep, e)
						}
					}
					kvs = keep
				}
				dev := "honest"
				switch r.Intn(16) {
				case 0, 1:
				case 2, 3, 4, 5:
					f := pick(r, fields)
					if r.P(1, 3) {
						f = "nonce"
					}
					v := pick(r, valsOf[f])
					kvs = set(kvs, `"`+f+`"`, v)
					dev = f + "=" + jwsShort(v)
				case 6:
					// a value of any kind in a known member
					f := pick(r, fields)
					kvs = set(kvs, `"`+f+`"`, jwsGenValue(r, 0))
					dev = f + "=random-value"
				case 7:
					// names that are not the field's name (the fork has no case folding), or are it after unquoting
					f := pick(r, fields)
					k := pick(r, []string{strings.ToUpper(f[:1]) + f[1:], strings.ToUpper(f), strings.ToLower(f), f + " ", " " + f, fmt.Sprintf(`\u%04x%s`, f[0], f[1:]), f[:len(f)-1] + fmt.Sprintf(`\u%04X`, f[len(f)-1]), strings.Replace(f, "s", "ſ", 1), strings.Replace(f, "k", "K", 1)})
					v := pick(r, valsOf[f])
					dup := false
					for _, e := range kvs {
						dup = dup || e.k == `"`+k+`"`
					}
					if strings.Contains(k, `\u`) {
						// the escaped spelling IS the field's name: drop the plain one
						keep := kvs[:0]
						for _, e := range kvs {
							if e.k != `"`+f+`"` {
								keep = append(keep, e)
							}
						}
						kvs = keep
						dev = "name-escaped:" + f + "=" + jwsShort(v)
					} else {
						dev = "name-variant:" + jwsShort(k)
					}
					if !dup {
						kvs = append(kvs, jwsKV{`"` + k + `"`, v})
					}
				case 8:
					// a repeated member name (known or unknown; the same spelling or an escaped one)
					f := pick(r, append([]string{"extra", ""}, fields...))
					second := pick(r, []string{`"` + f + `"`, `"` + f + `"`, fmt.Sprintf(`"%s\u%04x"`, f, 'x')})
					if f != "" && r.Bool() {
						second = fmt.Sprintf(`"\u%04x%s"`, f[0], f[1:])
					}
					v := "null"
					if vs, ok := valsOf[f]; ok {
						v = vs[0]
					}
					kvs = set(kvs, `"`+f+`"`, v)
					kvs = append(kvs, jwsKV{second, pick(r, []string{v, "null"})})
					dev = "dup:" + f
					if strings.HasSuffix(second, `\u0078"`) {
						dev = "not-dup:" + f + "+x"
					}
				case 9:
					kvs = append(kvs, jwsKV{"\"\xff\"", "1"}, jwsKV{pick(r, []string{"\"\xfe\"", `"�"`, `"\udc00"`}), "2"})
					dev = "dup-after-utf8-coercion"
				case 10, 11:
					// unknown members: skipped without being decoded
					for k := 1 + r.Intn(3); k > 0; k-- {
						name := pick(r, []string{`"extra"`, `"error"`, `"advice"`, `"x"`, `"Nonce"`, `"NONCE"`}) // may repeat: then it is a duplicate
						kvs = append(kvs, jwsKV{name, pick(r, []string{jwsGenValue(r, 0), `{"a":1,"a":2}`, `1e999`, `[{"nonce":1,"nonce":2}]`, `"\ud800"`})})
					}
					dev = "unknown-members"
				case 12:
					s := pick(r, []string{`null`, ` null`, `[]`, `"x"`, `1`, `true`, `false`, `{}`, ` {} `, "\t{}\r\n", ``, ` `, `nul`, `{`, `{}{}`, `{} x`, `{}]`, "{}\x00", "\ufeff{}", "{}\u00a0", "\v{}", `[{"nonce":"AAAA"}]`, `{"nonce":"AAAA"`, `{"nonce":"AAAA",}`, `{nonce:"AAAA"}`, `-0`, `1e999`, `""`})
					run(s, "toplevel="+jwsShort(s))
					continue
				case 13:
					s := jwsObject(r, kvs, true)
					switch r.Intn(3) {
					case 0:
						run(s+pick(r, []string{"x", "{}", ",", "\x00", "]", " null", "}", "\u00a0"}), "trailing-data")
					case 1:
						run(s[:r.Intn(len(s))], "truncated")
					default:
						run(pick(r, []string{"\ufeff", "\x00", "\v", "x", ","})+s, "leading-data")
					}
					continue
				case 14:
					run(string(mutate(r, []byte(jwsObject(r, kvs, true)))), "mutated")
					continue
				case 15:
					// a nonce written as an array of numbers / in an unusual but valid base64 spelling
					b := r.Bytes(r.Intn(40))
					switch r.Intn(4) {
					case 0:
						var parts []string
						for _, x := range b {
							parts = append(parts, fmt.Sprint(x))
						}
						kvs = set(kvs, `"nonce"`, "["+strings.Join(parts, pick(r, []string{",", " , "}))+"]")
						dev = "nonce-number-array"
					case 1:
						kvs = set(kvs, `"nonce"`, jwsEscapeSome(r, stdB64(b)))
						dev = "nonce-escaped"
					case 2:
						kvs = set(kvs, `"nonce"`, `"`+jwsSprinkle(r, stdB64(b), []string{`\n`, `\r`, `\r\n`, `\u000a`, `\u000D`}, 1+r.Intn(3))+`"`)
						dev = "nonce-with-newlines"
					default:
						kvs = set(kvs, `"nonce"`, `"`+jwsSprinkle(r, stdB64(b), []string{" ", `\t`, "=", "-", "_", ".", `\u0000`, "\u00a0", "A", `\\`}, 1)+`"`)
						dev = "nonce-one-character-inserted"
					}
				}
				run(jwsObject(r, kvs, true), dev)
			}
			alphabet := []string{"{", "}", "[", "]", "\"", ":", ",", ".", "=", "\\", "a", "e", "0", "1", "-", "_", "+", "/", " ", "\n", `"nonce"`, "null"}
			for i := 0; i < c.N(1500, 100000); i++ {
				var sb strings.Builder
				for k := r.Intn(9); k > 0; k-- {
					sb.WriteString(pick(r, alphabet))
				}
				run(sb.String(), "random-short")
			}
			// every string up to a bounded length over JSON punctuation, literal letters and two whole tokens
			exh := []string{"{", "}", "[", "]", "\"", ":", ",", "\\", "u", "0", "1", "-", ".", "e", "n", " ", `"nonce"`, "null"}
			maxLen := c.N(3, 4)
			count := 0
			var rec func(prefix string, d int)
			rec = func(prefix string, d int) {
				run(prefix, "exhaustive")
				count++
				if d == 0 {
					return
				}
				for _, a := range exh {
					rec(prefix+a, d-1)
				}
			}
			rec("", maxLen)
			c.Res.mu.Lock()
			c.Res.Exhaustive = append(c.Res.Exhaustive, fmt.Sprintf("SafetyNet claims JSON: all %d concatenations of at most %d symbols of an 18-symbol alphabet (JSON punctuation, literal letters, \"nonce\", null)", count, maxLen))
			c.Res.mu.Unlock()
		}},
		{"jws.base64", func(c *Ctx) {
			r := c.R
			run := func(s string, dev string) {
				executors["b64.std"](c, "jws.base64", M{"op": "b64.std", "s": hx([]byte(s)), "_dev": dev})
			}
			strip := func(s string, dev string) {
				executors["jws.strip"](c, "jws.base64", M{"op": "jws.strip", "s": hx([]byte(s)), "_dev": dev})
			}
			n := c.N(2500, 150000)
			for i := 0; i < n; i++ {
				b := r.Bytes(r.Intn(r.Intn(60) + 1))
				s := base64.StdEncoding.EncodeToString(b)
				switch r.Intn(12) {
				case 0:
					run(s, fmt.Sprintf("canonical-len%%3=%d", len(b)%3))
				case 1:
					run(jwsSprinkle(r, s, []string{"\n", "\r", "\r\n"}, 1+r.Intn(4)), "newlines")
				case 2:
					run(strings.TrimRight(s, "="), fmt.Sprintf("padding-removed-len%%3=%d", len(b)%3))
				case 3:
					run(s+pick(r, []string{"=", "==", "A", "AAAA", " ", "\n", "\n=", "=\n", "\x00"}), "something-appended")
				case 4:
					run(jwsSprinkle(r, s, []string{"=", " ", "-", "_", "\t", ".", "\x00", "\xff", "!"}, 1), "one-character-inserted")
				case 5:
					run(string(mutate(r, []byte(s))), "mutated")
				case 6:
					// the unused bits of the last character are not checked
					if len(b)%3 != 0 && len(s) >= 4 {
						k := strings.IndexByte(s, '=') - 1
						alphabet := "ABCDEFGHIJKLMNOPQRSTUVWXYZabcdefghijklmnopqrstuvwxyz0123456789+/"
						run(s[:k]+string(alphabet[r.Intn(64)])+s[k+1:], "last-character-replaced")
					} else {
						run(s, "canonical-len%3=0")
					}
				case 7:
					// padding split by newlines, padding in the wrong place
					t := strings.TrimRight(s, "=")
					run(t+pick(r, []string{"=\n=", "\n==", "=\r\n=\n", "= =", "=\n", "==\n\n", "=A=", "==="}), "padding-variants")
				case 8:
					run(strings.NewReplacer("+", "-", "/", "_").Replace(s), "url-alphabet")
				default:
					var sb strings.Builder
					for k := r.Intn(10); k > 0; k-- {
						sb.WriteString(pick(r, []string{"A", "A", "B", "/", "+", "=", "=", "\n", "\r", "-", " "}))
					}
					run(sb.String(), "random-short")
				}
			}
			// stripWhitespace against the copy of go-jose's function
			for i := 0; i < c.N(1500, 100000); i++ {
				var sb strings.Builder
				for k := r.Intn(10); k > 0; k-- {
					switch r.Intn(6) {
					case 0:
						sb.WriteString(pick(r, jwsSpaces))
					case 1:
						sb.WriteString(pick(r, jwsNearSpaces))
					case 2:
						sb.Write(r.Bytes(1 + r.Intn(3)))
					case 3:
						sb.WriteString(string(rune(r.Intn(0x3100))))
					default:
						sb.WriteString(pick(r, []string{"a", "e30", ".", "=", "{"}))
					}
				}
				s := sb.String()
				if r.P(1, 5) {
					s = string(mutate(r, []byte(s)))
				}
				strip(s, "random")
			}
			// every rune the decision could depend on: U+0000..U+30FF, and every two-byte sequence starting with C2 / E2 80 / E2 81 / E1 9A / E3 80
			for cp := 0; cp < 0x3100; cp++ {
				strip("a"+string(rune(cp))+"b", "every-rune-below-U+3100")
			}
			for b0 := 0x80; b0 < 0x100; b0++ {
				for _, tail := range []string{"", "\x80", "\xa0", "\x80\x80", "\x80\xa8", "\x9a\x80", "\x81\x9f", "\x80\x80\x80"} {
					strip("a"+string([]byte{byte(b0)})+tail+"b", "every-lead-byte")
				}
			}
		}},
	}
	// every key kind x every algorithm name: the signature is made the way the NAMED algorithm prescribes with whatever key is at hand
	// (ES384 with a P-256 key gives r, s padded to 48 bytes and SHA-384; ES256 with a P-384 key cannot fit and is mis-sized), plus
	// mis-sized, DER-encoded, truncated and zero signatures; go-jose's Verify against the Lean plan carried out by the crypto oracle
	jwsStreams = append(jwsStreams, Stream{"jws.verifyPlan", func(c *Ctx) {
		r := c.R
		algs := []string{"RS256", "RS384", "RS512", "PS256", "PS384", "PS512", "ES256", "ES384", "ES512", "EdDSA", "none", "HS256", "", "es256", "RS1", "ES256K", "EdDSA "}
		n := c.N(3, 60)
		for round := 0; round < n; round++ {
			keys := []*KeyPair{genKeyPair(r, algRS256), genKeyPairOnCurve(r, algES256, 1, false), genKeyPairOnCurve(r, algES384, 2, false), genKeyPairOnCurve(r, algES512, 3, false), genKeyPair(r, algEdDSA)}
			for _, k := range keys {
				for _, alg := range algs {
					hdr := []byte(`{"alg":` + jwsQ(alg) + `}`)
					payload := []byte(`{"n":` + fmt.Sprint(r.Intn(1000)) + `}`)
					input := []byte(b64u(hdr) + "." + b64u(payload))
					sigs := map[string][]byte{"empty": {}, "zeros64": make([]byte, 64), "random": r.Bytes(64)}
					h := crypto.Hash(0)
					switch {
					case strings.HasSuffix(alg, "256"):
						h = crypto.SHA256
					case strings.HasSuffix(alg, "384"):
						h = crypto.SHA384
					case strings.HasSuffix(alg, "512"):
						h = crypto.SHA512
					}
					size := map[string]int{"ES256": 32, "ES384": 48, "ES512": 66}[alg]
					switch k.Kind {
					case "rsa":
						if h != 0 {
							p1, _ := rsa.SignPKCS1v15(rand.Reader, k.RSA, h, digestFor(h, input))
							p2, _ := rsa.SignPSS(rand.Reader, k.RSA, h, digestFor(h, input), &rsa.PSSOptions{SaltLength: pick(r, []int{rsa.PSSSaltLengthEqualsHash, rsa.PSSSaltLengthAuto, 0, 20})})
							sigs["pkcs1"], sigs["pss"] = p1, p2
							if len(p1) > 1 {
								sigs["pkcs1-short"] = p1[1:]
							}
						}
					case "ec":
						hh := h
						if hh == 0 {
							hh = crypto.SHA256
						}
						rr, ss, _ := ecdsa.Sign(rand.Reader, k.EC, digestFor(hh, input))
						ksize := (k.EC.Curve.Params().BitSize + 7) / 8
						sigs["raw-keysize"] = append(fixed(rr, ksize), fixed(ss, ksize)...)
						if size >= ksize {
							sigs["raw-algsize"] = append(fixed(rr, size), fixed(ss, size)...)
						}
						der, _ := ecdsa.SignASN1(rand.Reader, k.EC, digestFor(hh, input))
						sigs["der"] = der
						sigs["raw-plus1"] = append(append([]byte{}, sigs["raw-keysize"]...), 0)
						sigs["r-zero"] = append(make([]byte, ksize), fixed(ss, ksize)...)
					case "ed":
						sigs["ed"] = ed25519.Sign(k.Ed, input)
					}
					names := make([]string, 0, len(sigs))
					for name := range sigs {
						names = append(names, name)
					}
					sort.Strings(names)
					for _, name := range names {
						raw := string(input) + "." + b64u(sigs[name])
						der, err := x509.MarshalPKIXPublicKey(k.Public())
						if err != nil {
							panic(err)
						}
						executors["jws.parse"](c, "jws.verifyPlan", M{"op": "jws.parse", "raw": hx([]byte(raw)), "_dev": "plan/" + k.Kind + fmt.Sprint(k.Crv) + "/" + alg + "/" + name, "_pub": hx(der)})
					}
				}
			}
		}
	}})
	// the same model serves the android-safetynet statement (C03, C04, C05) and the metadata BLOB (C15)
	register("C04", jwsStreams...)
	register("C15", jwsStreams...)
}
