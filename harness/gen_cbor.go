package main

import (
	"encoding/binary"
)

// Harness-local CBOR encoder/generator (independent of fxamacker's encoder).

func cborHead(major byte, val uint64, minimal bool, r *RNG) []byte {
	m := major << 5
	width := 0
	switch {
	case val < 24:
		width = 0
	case val < 1<<8:
		width = 1
	case val < 1<<16:
		width = 2
	case val < 1<<32:
		width = 4
	default:
		width = 8
	}
	if !minimal && r != nil && r.P(1, 4) {
		// non-minimal: choose any width ≥ needed
		ws := []int{0, 1, 2, 4, 8}
		var ok []int
		for _, w := range ws {
			if w >= width && !(w == 0 && val >= 24) {
				ok = append(ok, w)
			}
		}
		width = pick(r, ok)
	}
	switch width {
	case 0:
		return []byte{m | byte(val)}
	case 1:
		return []byte{m | 24, byte(val)}
	case 2:
		b := []byte{m | 25, 0, 0}
		binary.BigEndian.PutUint16(b[1:], uint16(val))
		return b
	case 4:
		b := []byte{m | 26, 0, 0, 0, 0}
		binary.BigEndian.PutUint32(b[1:], uint32(val))
		return b
	default:
		b := make([]byte, 9)
		b[0] = m | 27
		binary.BigEndian.PutUint64(b[1:], val)
		return b
	}
}

func cborBytes(b []byte) []byte { return append(cborHead(2, uint64(len(b)), true, nil), b...) }
func cborText(s string) []byte  { return append(cborHead(3, uint64(len(s)), true, nil), s...) }
func cborUint(v uint64) []byte  { return cborHead(0, v, true, nil) }
func cborInt(v int64) []byte {
	if v >= 0 {
		return cborHead(0, uint64(v), true, nil)
	}
	return cborHead(1, uint64(-1-v), true, nil)
}
func cborArray(items ...[]byte) []byte {
	out := cborHead(4, uint64(len(items)), true, nil)
	for _, it := range items {
		out = append(out, it...)
	}
	return out
}

// cborMap takes alternating key, value encodings.
func cborMap(kvs ...[]byte) []byte {
	out := cborHead(5, uint64(len(kvs)/2), true, nil)
	for _, it := range kvs {
		out = append(out, it...)
	}
	return out
}

var utf8Samples = []string{"", "a", "fmt", "authData", "é", "€", "𝄞", "x5c", "alg", "sig", "\x00", "Ab"}
var badUTF8 = [][]byte{{0xc3, 0x28}, {0xff}, {0xe2, 0x82}, {0xed, 0xa0, 0x80}, {0xc0, 0xaf}, {0xf4, 0x90, 0x80, 0x80}, {0x80}}

// genCBOR returns one random (mostly well-formed) item; exotic toggles the unusual constructs.
func genCBOR(r *RNG, depth int, exotic bool) []byte {
	kinds := 8
	if depth <= 0 {
		kinds = 4
	}
	switch r.Intn(kinds + 2) {
	case 0:
		return cborHead(0, genUintVal(r), !exotic, r)
	case 1:
		return cborHead(1, genUintVal(r), !exotic, r)
	case 2:
		b := r.Bytes(r.Intn(12))
		if exotic && r.P(1, 4) {
			return indefString(r, 2, b)
		}
		return append(cborHead(2, uint64(len(b)), !exotic, r), b...)
	case 3:
		s := []byte(pick(r, utf8Samples))
		if exotic && r.P(1, 8) {
			s = pick(r, badUTF8)
		}
		if exotic && r.P(1, 4) {
			return indefString(r, 3, s)
		}
		return append(cborHead(3, uint64(len(s)), !exotic, r), s...)
	case 4:
		n := r.Intn(4)
		if exotic && r.P(1, 4) {
			out := []byte{0x9f}
			for i := 0; i < n; i++ {
				out = append(out, genCBOR(r, depth-1, exotic)...)
			}
			return append(out, 0xff)
		}
		out := cborHead(4, uint64(n), !exotic, r)
		for i := 0; i < n; i++ {
			out = append(out, genCBOR(r, depth-1, exotic)...)
		}
		return out
	case 5:
		n := r.Intn(4)
		var out []byte
		indef := exotic && r.P(1, 4)
		if indef {
			out = []byte{0xbf}
		} else {
			out = cborHead(5, uint64(n), !exotic, r)
		}
		for i := 0; i < n; i++ {
			if exotic && r.P(1, 3) {
				out = append(out, genCBOR(r, depth-1, exotic)...) // any key kind
			} else if r.Bool() {
				out = append(out, cborText(pick(r, utf8Samples))...)
			} else {
				out = append(out, cborInt(int64(r.Intn(9))-4)...)
			}
			out = append(out, genCBOR(r, depth-1, exotic)...)
		}
		if indef {
			out = append(out, 0xff)
		}
		return out
	case 6:
		if !exotic {
			return cborBytes(r.Bytes(r.Intn(40)))
		}
		tags := []uint64{0, 1, 2, 3, 4, 21, 24, 32, 100, 55799, 55799, 1 << 40}
		t := pick(r, tags)
		return append(cborHead(6, t, r.P(3, 4), r), genCBOR(r, depth-1, exotic)...)
	case 7:
		if !exotic {
			return cborInt(int64(r.Intn(600)) - 300)
		}
		switch r.Intn(6) {
		case 0:
			return []byte{0xe0 | byte(r.Intn(24))} // simple 0..23 (incl. false/true/null/undefined)
		case 1:
			return []byte{0xf8, byte(r.Intn(256))} // simple with 1-byte argument (<32 invalid)
		case 2:
			return append([]byte{0xf9}, r.Bytes(2)...)
		case 3:
			return append([]byte{0xfa}, r.Bytes(4)...)
		case 4:
			return append([]byte{0xfb}, r.Bytes(8)...)
		default:
			return []byte{0xf6}
		}
	default:
		return cborInt(int64(r.Intn(50)) - 25)
	}
}

func genUintVal(r *RNG) uint64 {
	switch r.Intn(8) {
	case 0:
		return uint64(r.Intn(24))
	case 1:
		return uint64(r.Intn(256))
	case 2:
		return uint64(r.Intn(70000))
	case 3:
		return r.U64() >> uint(r.Intn(64))
	case 4:
		return 1<<63 - 1 + uint64(r.Intn(3))
	case 5:
		return ^uint64(0) - uint64(r.Intn(2))
	default:
		return uint64(r.Intn(1000))
	}
}

func indefString(r *RNG, major byte, b []byte) []byte {
	out := []byte{major<<5 | 31}
	for len(b) > 0 {
		n := 1 + r.Intn(len(b))
		out = append(out, cborHead(major, uint64(n), true, nil)...)
		out = append(out, b[:n]...)
		b = b[n:]
	}
	if r.P(1, 10) {
		out = append(out, cborHead(major^1, 1, true, nil)...) // wrong chunk type
		out = append(out, 'x')
	}
	return append(out, 0xff)
}

// nested returns depth-deep arrays (or maps/tags) around a 1.
func nested(kind byte, depth int) []byte {
	var out []byte
	for i := 0; i < depth; i++ {
		switch kind {
		case 4:
			out = append(out, 0x81)
		case 5:
			out = append(out, 0xa1, 0x00)
		case 6:
			out = append(out, 0xc6)
		}
	}
	return append(out, 0x01)
}

// mutate applies a few byte-level mutations.
func mutate(r *RNG, b []byte) []byte {
	out := append([]byte{}, b...)
	n := 1 + r.Intn(3)
	for i := 0; i < n; i++ {
		switch r.Intn(5) {
		case 0:
			if len(out) > 0 {
				out[r.Intn(len(out))] ^= 1 << uint(r.Intn(8))
			}
		case 1:
			if len(out) > 0 {
				out[r.Intn(len(out))] = byte(r.U64())
			}
		case 2:
			if len(out) > 0 {
				k := r.Intn(len(out))
				out = append(out[:k], out[k+1:]...)
			}
		case 3:
			k := r.Intn(len(out) + 1)
			out = append(out[:k], append([]byte{byte(r.U64())}, out[k:]...)...)
		case 4:
			if len(out) > 0 {
				out = out[:r.Intn(len(out))]
			}
		}
	}
	return out
}
