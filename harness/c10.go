package main

import (
	"encoding/binary"
	"fmt"

	"github.com/pomerium/webauthn"
)

// ---------- executors ----------

func authDataObs(d *webauthn.AuthenticatorData, rest []byte, err error) M {
	if err != nil {
		return M{"ok": false}
	}
	v := M{"rpIdHash": hx(d.RPIDHash[:]), "flags": int(d.Flags), "signCount": int64(d.SignCount), "ext": hx(d.Extensions)}
	if d.AttestedCredentialData != nil {
		a := d.AttestedCredentialData
		v["acd"] = M{"aaguid": hx(a.AAGUID[:]), "credId": hx(a.CredentialID), "key": hx(a.CredentialPublicKey)}
	} else {
		v["acd"] = nil
	}
	return M{"ok": true, "value": v, "rest": hx(rest)}
}

func init() {
	executors["authData.unmarshal"] = func(c *Ctx, stream string, op M) {
		raw := unhx(op["data"].(string))
		model := c.Call(op)
		if um, _ := model["unmodelled"].(bool); um {
			c.Unmodelled(stream)
			return
		}
		delete(model, "id")
		delete(model, "unmodelled")
		impl := guard(func() M {
			d, rest, err := webauthn.UnmarshalAuthenticatorData(raw)
			return authDataObs(d, rest, err)
		})
		class := "reject"
		if ok, _ := model["ok"].(bool); ok {
			class = fmt.Sprintf("accept-flags-%02x", raw[32]&0xC0)
		}
		// non-trivial: long enough to reach the variable part
		c.Compare(stream, op, impl, model, class, len(raw) >= 37)
		// round trip on the implementation side too: Marshal(Unmarshal(b)) == consumed prefix
		if ok, _ := impl["ok"].(bool); ok {
			d, rest, _ := webauthn.UnmarshalAuthenticatorData(raw)
			back, err := d.Marshal()
			consumed := raw[:len(raw)-len(rest)]
			c.Compare(stream+".remarshal", M{"op": "authData.remarshal", "data": op["data"]},
				M{"ok": err == nil, "data": hx(back)}, M{"ok": true, "data": hx(consumed)}, "roundtrip", true)
		}
	}
	executors["authData.marshal"] = func(c *Ctx, stream string, op M) {
		model := c.Call(op)
		delete(model, "id")
		impl := guard(func() M {
			d := &webauthn.AuthenticatorData{Flags: webauthn.AuthenticatorFlags(byte(num(op["flags"]))), SignCount: uint32(num(op["signCount"]))}
			copy(d.RPIDHash[:], unhx(op["rpIdHash"].(string)))
			d.Extensions = unhx(op["ext"].(string))
			if a, ok := op["acd"].(M); ok && a != nil {
				acd := &webauthn.AttestedCredentialData{CredentialID: unhx(a["credId"].(string)), CredentialPublicKey: unhx(a["key"].(string))}
				copy(acd.AAGUID[:], unhx(a["aaguid"].(string)))
				d.AttestedCredentialData = acd
			}
			b, err := d.Marshal()
			if err != nil {
				return M{"ok": false}
			}
			// the result is the caller's: a later Marshal (of another value, of the same or a shorter length) must leave it as it is,
			// and so must an Unmarshal of it (whose fields alias it)
			want := hx(b)
			other := &webauthn.AuthenticatorData{Flags: 0x01, SignCount: 0xA5A5A5A5}
			for i := range other.RPIDHash {
				other.RPIDHash[i] = 0x5A
			}
			_, _ = other.Marshal()
			if hx(b) != want {
				return M{"ok": true, "data": want, "overwrittenByLaterMarshal": hx(b)}
			}
			return M{"ok": true, "data": want}
		})
		class := "ok"
		if ok, _ := model["ok"].(bool); !ok {
			class = "error"
		}
		c.Compare(stream, op, impl, model, class, true)
	}
	executors["flags"] = func(c *Ctx, stream string, op M) {
		model := c.Call(op)
		delete(model, "id")
		f := webauthn.AuthenticatorFlags(byte(num(op["flags"])))
		impl := M{"up": f.UserPresent(), "uv": f.UserVerified(), "at": f.AttestedCredentialDataIncluded(), "ed": f.ExtensionDataIncluded()}
		c.Compare(stream, op, impl, model, "flags", true)
	}
	executors["cbor.extract"] = func(c *Ctx, stream string, op M) {
		raw := unhx(op["data"].(string))
		model := c.Call(op)
		if m, ok := model["modelled"].(bool); ok && !m {
			c.Unmodelled(stream)
			return
		}
		// drive extractCBOR through the exported parser: header with only ED set
		hdr := make([]byte, 37)
		hdr[32] = 0x80
		impl := guard(func() M {
			d, rest, err := webauthn.UnmarshalAuthenticatorData(append(hdr, raw...))
			if err != nil {
				return M{"ok": false}
			}
			return M{"ok": true, "item": hx(d.Extensions), "rest": hx(rest)}
		})
		mo := M{"ok": model["ok"]}
		class := "reject"
		if ok, _ := model["ok"].(bool); ok {
			mo["item"] = model["item"]
			mo["rest"] = model["rest"]
			class = "accept"
		} else if wf, _ := model["wf"].(bool); wf {
			class = "reject-semantic"
		}
		c.Compare(stream, op, impl, mo, class, len(raw) > 0)
	}
}

// ---------- generators ----------

func genAuthDataBytes(r *RNG, exotic bool) []byte {
	b := r.Bytes(32)
	flags := byte(r.U64())
	b = append(b, flags)
	cnt := make([]byte, 4)
	binary.BigEndian.PutUint32(cnt, uint32(r.U64()>>uint(r.Intn(33))))
	b = append(b, cnt...)
	if flags&0x40 != 0 {
		b = append(b, r.Bytes(16)...)
		l := pick(r, []int{0, 1, 2, 16, 32, 64, 255, 256, 300})
		if r.P(1, 20) {
			l = pick(r, []int{1023, 1024, 4096})
		}
		b = append(b, byte(l>>8), byte(l))
		b = append(b, r.Bytes(l)...)
		b = append(b, genCBOR(r, 3, exotic)...)
	}
	if flags&0x80 != 0 {
		b = append(b, genCBOR(r, 3, exotic)...)
	}
	if r.P(1, 3) {
		b = append(b, r.Bytes(r.Intn(5))...)
	}
	return b
}

func init() {
	register("C10",
		Stream{"authData.valid", func(c *Ctx) {
			n := c.N(6000, 400000)
			for i := 0; i < n; i++ {
				b := genAuthDataBytes(c.R, i%2 == 1)
				executors["authData.unmarshal"](c, "authData.valid", M{"op": "authData.unmarshal", "data": hx(b)})
			}
		}},
		Stream{"authData.prefixes", func(c *Ctx) {
			n := c.N(150, 6000)
			maxLen := c.N(200, 2048)
			for i := 0; i < n; i++ {
				b := genAuthDataBytes(c.R, i%3 == 0)
				if len(b) > maxLen {
					continue
				}
				for k := 0; k <= len(b); k++ {
					executors["authData.unmarshal"](c, "authData.prefixes", M{"op": "authData.unmarshal", "data": hx(b[:k])})
				}
			}
		}},
		Stream{"authData.mutated", func(c *Ctx) {
			n := c.N(6000, 400000)
			for i := 0; i < n; i++ {
				b := mutate(c.R, genAuthDataBytes(c.R, i%2 == 1))
				executors["authData.unmarshal"](c, "authData.mutated", M{"op": "authData.unmarshal", "data": hx(b)})
			}
		}},
		Stream{"authData.random", func(c *Ctx) {
			n := c.N(3000, 200000)
			for i := 0; i < n; i++ {
				b := c.R.Bytes(c.R.Intn(120))
				if len(b) > 32 && c.R.Bool() {
					b[32] = pick(c.R, []byte{0x00, 0x01, 0x41, 0x81, 0xC1, 0x45})
				}
				executors["authData.unmarshal"](c, "authData.random", M{"op": "authData.unmarshal", "data": hx(b)})
			}
		}},
		Stream{"authData.credIdLengths", func(c *Ctx) {
			lens := []int{0, 1, 2, 255, 256, 1023, 1024, 65535}
			for _, l := range lens {
				for _, short := range []int{0, 1} {
					b := append(c.R.Bytes(32), 0x41, 0, 0, 0, 1)
					b = append(b, c.R.Bytes(16)...)
					b = append(b, byte(l>>8), byte(l))
					if l-short >= 0 {
						b = append(b, c.R.Bytes(l-short)...)
					}
					if short == 0 {
						b = append(b, 0xa0)
					}
					executors["authData.unmarshal"](c, "authData.credIdLengths", M{"op": "authData.unmarshal", "data": hx(b)})
				}
			}
		}},
		Stream{"flags.all256", func(c *Ctx) {
			for f := 0; f < 256; f++ {
				executors["flags"](c, "flags.all256", M{"op": "flags", "flags": f})
			}
			c.Res.mu.Lock()
			c.Res.Exhaustive = append(c.Res.Exhaustive, "all 256 flag bytes")
			c.Res.mu.Unlock()
		}},
		Stream{"authData.marshal", func(c *Ctx) {
			n := c.N(3000, 100000)
			for i := 0; i < n; i++ {
				r := c.R
				op := M{"op": "authData.marshal", "rpIdHash": hx(r.Bytes(32)), "flags": int(byte(r.U64())),
					"signCount": int64(uint32(r.U64() >> uint(r.Intn(33)))), "ext": hx(nil)}
				if r.P(2, 3) {
					op["ext"] = hx(genCBOR(r, 2, false))
				}
				if r.P(2, 3) {
					op["acd"] = M{"aaguid": hx(r.Bytes(16)), "credId": hx(r.Bytes(pick(r, []int{0, 1, 16, 300}))), "key": hx(genCBOR(r, 2, false))}
				} else {
					op["acd"] = nil
				}
				executors["authData.marshal"](c, "authData.marshal", op)
			}
		}},
		Stream{"cbor.items", func(c *Ctx) {
			n := c.N(8000, 600000)
			for i := 0; i < n; i++ {
				b := genCBOR(c.R, 4, true)
				switch c.R.Intn(4) {
				case 0:
					b = append(b, c.R.Bytes(c.R.Intn(4))...)
				case 1:
					b = mutate(c.R, b)
				}
				executors["cbor.extract"](c, "cbor.items", M{"op": "cbor.extract", "data": hx(b)})
			}
		}},
		Stream{"cbor.edge", func(c *Ctx) {
			var cases [][]byte
			for _, k := range []byte{4, 5, 6} {
				for _, d := range []int{1, 16, 31, 32, 33, 34, 64} {
					cases = append(cases, nested(k, d))
				}
			}
			// mixed nesting of arrays and tags around the limit
			for d := 28; d <= 36; d++ {
				var b []byte
				for i := 0; i < d; i++ {
					if i%2 == 0 {
						b = append(b, 0x81)
					} else {
						b = append(b, 0xc6, 0xc7)
					}
				}
				cases = append(cases, append(b, 0x01))
			}
			for _, h := range []string{"", "ff", "1c", "1d", "1e", "1f", "3f", "df", "5f4101ff", "5f6161ff", "7f6161ff", "7f4161ff",
				"5f5f4101ffff", "bf01ff", "bf0102ff", "9fff", "bfff", "9a00020001", "9a00020000", "ba00020001", "5a00010000",
				"f810", "f81f", "f820", "f8ff", "f97e00", "f97c00", "fa7fc00000", "fb7ff8000000000000", "1bffffffffffffffff",
				"3bffffffffffffffff", "3b7fffffffffffffff", "3b8000000000000000", "a13b800000000000000001", "a13b7fffffffffffffff01",
				"c001", "c06161", "c16161", "c101", "c1f93c00", "c26161", "c24101", "c34101", "c2c24101", "d9d9f701", "d9d9f7d9d9f701",
				"a1d9d9f7810101", "a1d9d9f7410101", "81d9d9f7c26161", "a1c2410101", "a1c6410101", "a1c6810101", "a1c0616101",
				"a1810101", "a1a001", "a1410101", "a201010102", "a2616101616102", "62c328", "7f61c361a9ff", "7f62c3a9ff",
				"a162c32801", "a10162c328", "8162c328", "c662c328", "d86401", "f7", "f6", "f4", "f5", "e0", "f3",
				"a1f9000001", "a1f501", "a1f601", "a1f97e0001", "a2f97e0001f97e0002"} {
				cases = append(cases, unhx(h))
			}
			// element-count limits (131072 = 0x20000)
			big := append([]byte{0x9a, 0x00, 0x02, 0x00, 0x00}, make([]byte, 131072)...)
			cases = append(cases, big, append([]byte{0x9a, 0x00, 0x02, 0x00, 0x01}, make([]byte, 131073)...))
			ind := append([]byte{0x9f}, make([]byte, 131072)...)
			cases = append(cases, append(append([]byte{}, ind...), 0xff), append(append(append([]byte{}, ind...), 0x00), 0xff))
			for _, b := range cases {
				for _, tail := range [][]byte{nil, {0xAA}} {
					executors["cbor.extract"](c, "cbor.edge", M{"op": "cbor.extract", "data": hx(append(append([]byte{}, b...), tail...))})
				}
			}
		}},
	)
}
