package main

import (
	"context"
	"fmt"
	"reflect"
	"runtime"
	"sync"

	"github.com/pomerium/webauthn"
	"github.com/pomerium/webauthn/cose"
)

// C16: stateless, deterministic, side-effect free, concurrency-safe.

// lockedStore is a concurrency-safe CredentialStorage (mutex around a map); records are handed out as they are stored.
type lockedStore struct {
	mu sync.Mutex
	m  map[string]*webauthn.Credential
}

func (s *lockedStore) GetCredential(_ context.Context, id []byte) (*webauthn.Credential, error) {
	s.mu.Lock()
	defer s.mu.Unlock()
	c, ok := s.m[string(id)]
	if !ok {
		return nil, webauthn.ErrCredentialNotFound
	}
	return c, nil
}
func (s *lockedStore) SetCredential(_ context.Context, c *webauthn.Credential) error {
	s.mu.Lock()
	defer s.mu.Unlock()
	s.m[string(c.ID)] = c
	return nil
}

type goCeremony struct {
	kind    string
	regOpts *webauthn.PublicKeyCredentialCreationOptions
	regCred *webauthn.PublicKeyCreationCredential
	vopts   []webauthn.VerifyOption
	authO   *webauthn.PublicKeyCredentialRequestOptions
	authC   *webauthn.PublicKeyAssertionCredential
	op      M
}

// spare returns a copy of b that sits inside a larger buffer: 48 bytes of spare capacity follow it, filled with a sentinel.
// A callee that appends to (or writes behind) a caller's slice shows up in the before/after comparison, which renders the
// whole capacity.
func spare(b []byte) []byte {
	if b == nil {
		return nil
	}
	buf := make([]byte, len(b)+48)
	copy(buf, b)
	for i := len(b); i < len(buf); i++ {
		buf[i] = 0xA5
	}
	return buf[:len(b)]
}

func full(b []byte) string { return fmt.Sprintf("%x|%x", b, b[len(b):cap(b)]) }

func goCeremonyFromOp(op M) *goCeremony {
	g := goCeremonyFromOpPlain(op)
	if g.regOpts != nil {
		g.regOpts.Challenge = spare(g.regOpts.Challenge)
		g.regOpts.User.ID = spare(g.regOpts.User.ID)
		g.regCred.RawID = spare(g.regCred.RawID)
		g.regCred.Response.ClientDataJSON = spare(g.regCred.Response.ClientDataJSON)
		g.regCred.Response.AttestationObject = spare(g.regCred.Response.AttestationObject)
	} else {
		g.authO.Challenge = spare(g.authO.Challenge)
		for i := range g.authO.AllowCredentials {
			g.authO.AllowCredentials[i].ID = spare(g.authO.AllowCredentials[i].ID)
		}
		g.authC.RawID = spare(g.authC.RawID)
		g.authC.Response.ClientDataJSON = spare(g.authC.Response.ClientDataJSON)
		g.authC.Response.AuthenticatorData = spare(g.authC.Response.AuthenticatorData)
		g.authC.Response.Signature = spare(g.authC.Response.Signature)
		g.authC.Response.UserHandle = spare(g.authC.Response.UserHandle)
	}
	return g
}

func goCeremonyFromOpPlain(op M) *goCeremony {
	g := &goCeremony{op: op}
	if op["op"] == "register" {
		g.kind = "register"
		g.regOpts = &webauthn.PublicKeyCredentialCreationOptions{Challenge: unhx(op["challenge"].(string)),
			User: webauthn.PublicKeyCredentialUserEntity{ID: unhx(op["userId"].(string))}}
		for _, a := range intList(op["algs"]) {
			g.regOpts.PubKeyCredParams = append(g.regOpts.PubKeyCredParams, webauthn.PublicKeyCredentialParameters{Type: "public-key", COSEAlgorithmIdentifier: cose.Algorithm(a)})
		}
		if uv, ok := op["authSelUV"].(string); ok {
			g.regOpts.AuthenticatorSelection = &webauthn.AuthenticatorSelectionCriteria{UserVerification: webauthn.UserVerificationRequirement(unhx(uv))}
		}
		g.regCred = &webauthn.PublicKeyCreationCredential{RawID: unhx(op["rawId"].(string)), ClientExtensionResults: clientExtOf(op),
			Response: webauthn.AuthenticatorAttestationResponse{ClientDataJSON: unhx(op["cdj"].(string)), AttestationObject: unhx(op["attObj"].(string))}}
		g.vopts = verifyOptsFromOp(op)
		return g
	}
	g.kind = "authenticate"
	g.authO = &webauthn.PublicKeyCredentialRequestOptions{Challenge: unhx(op["challenge"].(string)), UserVerification: webauthn.UserVerificationRequirement(unhx(op["uv"].(string)))}
	for i, id := range hexList(op["allow"]) {
		g.authO.AllowCredentials = append(g.authO.AllowCredentials, webauthn.PublicKeyCredentialDescriptor{Type: descriptorType(op, i), ID: id})
	}
	g.authC = &webauthn.PublicKeyAssertionCredential{RawID: unhx(op["rawId"].(string)), ClientExtensionResults: clientExtOf(op),
		Response: webauthn.AuthenticatorAssertionResponse{ClientDataJSON: unhx(op["cdj"].(string)), AuthenticatorData: unhx(op["authData"].(string)),
			Signature: unhx(op["sig"].(string)), UserHandle: unhx(op["userHandle"].(string))}}
	return g
}

func (g *goCeremony) run(rp *webauthn.RelyingParty) M {
	return guard(func() M {
		var res *webauthn.Credential
		var err error
		if g.kind == "register" {
			res, err = rp.VerifyRegistrationCeremony(context.Background(), g.regOpts, g.regCred, g.vopts...)
		} else {
			res, err = rp.VerifyAuthenticationCeremony(context.Background(), g.authO, g.authC)
		}
		if err != nil || res == nil {
			return M{"ok": false}
		}
		return M{"ok": true, "cred": credObs(res)}
	})
}

// snapshot renders the inputs deeply (every byte of every slice), for before/after comparison
func (g *goCeremony) snapshot() string {
	s := fmt.Sprintf("%#v|%#v|%#v|%#v", g.regOpts, g.regCred, g.authO, g.authC)
	// every byte slice over its whole capacity
	if g.regOpts != nil {
		s += full(g.regOpts.Challenge) + full(g.regOpts.User.ID) + full(g.regCred.RawID) + full(g.regCred.Response.ClientDataJSON) + full(g.regCred.Response.AttestationObject)
	} else {
		s += full(g.authO.Challenge) + full(g.authC.RawID) + full(g.authC.Response.ClientDataJSON) + full(g.authC.Response.AuthenticatorData) +
			full(g.authC.Response.Signature) + full(g.authC.Response.UserHandle)
		for _, a := range g.authO.AllowCredentials {
			s += full(a.ID)
		}
	}
	return s
}

func genMixedOp(r *RNG, origin string, idPrefix string, store *[]M) M {
	// a ceremony whose credential id is private to the caller (so results do not depend on the interleaving)
	if r.Bool() {
		f := pick(r, allFormats)
		s := newRegSpec(r, f, pick(r, credAlgsFor(f)))
		s.Origin, s.Client = origin, origin
		s.AttAlg = pick(r, attAlgsFor(f))
		s.CredID = append([]byte(idPrefix), r.Bytes(8)...)
		if r.P(1, 3) {
			s.Dev[pick(r, regDeviations[:18])] = true
		} else if r.P(1, 6) {
			s.Dev["cd.memberAbsent"] = true // what a decoder left behind by another ceremony must not fill in
		}
		if r.P(1, 3) {
			// a per-call policy: it must not outlive the call (a later or concurrent ceremony without options sees the defaults)
			s.VerifyOpt = pick(r, [][]M{{{"formats": subsetOf(sevenFormats, r.Intn(128))}}, {{"types": subsetOf(sixTypes, r.Intn(64))}},
				{{"formats": subsetOf(sevenFormats, 1<<uint(r.Intn(7)))}, {"types": subsetOf(sixTypes, r.Intn(64))}}, {{"formats": []string{}}}})
		}
		b := buildRegistration(r, s)
		return b.Op()
	}
	kp := genKeyPair(r, pick(r, allAlgs))
	id := append([]byte(idPrefix), r.Bytes(8)...)
	owner := r.Bytes(4)
	s := newAuthSpec(r, origin, kp, id, owner, kp.COSE(true))
	if r.P(1, 3) {
		s.Dev[pick(r, authDeviations)] = true
	} else if r.P(1, 6) {
		s.Dev["cd.memberAbsent"] = true
	}
	op := buildAssertion(r, s)
	*store = append(*store, s.Store...)
	return op
}

func init() {
	register("C16",
		Stream{"inputs.unmodified", func(c *Ctx) {
			// options, credential and stored records are byte-for-byte the same after the call; the same call gives the same outcome twice
			n := c.N(300, 20000)
			for i := 0; i < n; i++ {
				var pre []M
				op := genMixedOp(c.R, pick(c.R, honestOrigins), "solo-", &pre)
				op["store"] = pre
				st := storeFromOp(op)
				stored := map[string]string{}
				for k, v := range st.m {
					v.ID, v.OwnerID, v.PublicKey = spare(v.ID), spare(v.OwnerID), spare(v.PublicKey)
					stored[k] = fmt.Sprintf("%#v", *v) + full(v.ID) + full(v.OwnerID) + full(v.PublicKey)
				}
				rp := webauthn.NewRelyingParty(string(unhx(op["origin"].(string))), st)
				g := goCeremonyFromOp(op)
				before := g.snapshot()
				r1 := g.run(rp)
				after := g.snapshot()
				changedStored := false
				for k, v := range stored {
					if cur, ok := st.m[k]; !ok || fmt.Sprintf("%#v", *cur)+full(cur.ID)+full(cur.OwnerID)+full(cur.PublicKey) != v {
						changedStored = true
					}
				}
				c.Compare("inputs.unmodified", op, M{"inputsChanged": before != after, "storedRecordChanged": changedStored}, M{"inputsChanged": false, "storedRecordChanged": false}, fmt.Sprint(op["op"]), true)
				// determinism: a second relying party over an equal storage gives the same outcome
				// (several times: an outcome that depends on map iteration order or on a pool shows only now and then)
				r2 := r1
				for rep := 0; rep < 6; rep++ {
					st2 := storeFromOp(op)
					r2 = goCeremonyFromOp(op).run(webauthn.NewRelyingParty(string(unhx(op["origin"].(string))), st2))
					if !reflect.DeepEqual(normalize(r2), normalize(r1)) {
						break
					}
				}
				c.Compare("deterministic", op, r2, r1, fmt.Sprint(op["op"]), true)
				// and the model agrees with it
				executors[op["op"].(string)](c, "deterministic.model", op)
			}
		}},
		Stream{"returned.records", func(c *Ctx) {
			// a record handed out earlier — by storage or by a ceremony — is never modified by a later ceremony: one owner registers an id,
			// authenticates, re-registers it with another authenticator, authenticates again; every *Credential seen so far is re-read after each step
			n := c.N(40, 2000)
			for i := 0; i < n; i++ {
				u := newUniverse(c.R, 1, 3, 1)
				owner, id := u.users[0], u.ids[0]
				render := func(cr *webauthn.Credential) string {
					return fmt.Sprintf("%#v", *cr) + full(cr.ID) + full(cr.OwnerID) + full(cr.PublicKey)
				}
				for _, real := range []bool{true, false} {
					var st webauthn.CredentialStorage
					fs := storeFromOp(M{})
					if real {
						st = webauthn.NewInMemoryCredentialStorage()
					} else {
						st = fs
					}
					rp := webauthn.NewRelyingParty(u.origin, st)
					type seen struct {
						p    *webauthn.Credential
						snap string
						from string
					}
					var held []seen
					changed := ""
					steps := []M{u.regOp(c.R, owner, u.auths[0], id, ""), u.authOp(c.R, owner, u.auths[0], id, ""), u.regOp(c.R, owner, u.auths[1], id, ""),
						u.authOp(c.R, owner, u.auths[1], id, ""), u.regOp(c.R, owner, u.auths[2], id, ""), u.authOp(c.R, owner, u.auths[0], id, "")}
					for k, op := range steps {
						op["op"] = op["kind"]
						g := goCeremonyFromOpPlain(op)
						guard(func() M {
							var res *webauthn.Credential
							if g.kind == "register" {
								res, _ = rp.VerifyRegistrationCeremony(context.Background(), g.regOpts, g.regCred)
							} else {
								res, _ = rp.VerifyAuthenticationCeremony(context.Background(), g.authO, g.authC)
							}
							for _, h := range held {
								if render(h.p) != h.snap && changed == "" {
									changed = fmt.Sprintf("record from %s changed during step %d (%v)", h.from, k, op["kind"])
								}
							}
							if res != nil {
								held = append(held, seen{res, render(res), fmt.Sprintf("ceremony %d", k)})
							}
							if cur, err := st.GetCredential(context.Background(), id); err == nil && cur != nil {
								held = append(held, seen{cur, render(cur), fmt.Sprintf("storage after step %d", k)})
							}
							return nil
						})
					}
					c.Compare("returned.records", M{"op": "returned.records", "origin": hx([]byte(u.origin)), "realStorage": real, "steps": steps},
						M{"changed": changed}, M{"changed": ""}, fmt.Sprintf("real=%v", real), true)
				}
			}
		}},
		Stream{"concurrent", func(c *Ctx) {
			// N ceremonies on ONE RelyingParty over a mutex-protected storage; each must return what it returns alone
			rounds := c.N(12, 400)
			for round := 0; round < rounds; round++ {
				n := pick(c.R, []int{2, 8, 32})
				procs := pick(c.R, []int{1, 4, 16})
				prev := runtime.GOMAXPROCS(procs)
				origin := pick(c.R, honestOrigins)
				var pre []M
				var ops []M
				for i := 0; i < n; i++ {
					ops = append(ops, genMixedOp(c.R, origin, fmt.Sprintf("g%d-", i), &pre))
				}
				shared := &lockedStore{m: map[string]*webauthn.Credential{}}
				for _, m := range pre {
					id := unhx(m["id"].(string))
					shared.m[string(id)] = &webauthn.Credential{ID: id, OwnerID: unhx(m["owner"].(string)), PublicKey: unhx(m["pk"].(string))}
				}
				rp := webauthn.NewRelyingParty(origin, shared)
				results := make([]M, n)
				twins := make([]M, n)
				snaps := make([][2]string, n)
				var gs []*goCeremony
				var wg sync.WaitGroup
				start := make(chan struct{})
				for i := 0; i < n; i++ {
					g := goCeremonyFromOp(ops[i])
					snaps[i][0] = g.snapshot()
					wg.Add(1)
					go func(i int) {
						defer wg.Done()
						<-start
						if i%3 == 0 {
							runtime.Gosched()
						}
						results[i] = g.run(rp)
					}(i)
					// a twin goroutine verifies THE SAME options / credential objects at the same time (authentication only: a
					// registration twin would race on the storage outcome, which is not what is being tested)
					if g.kind == "authenticate" {
						wg.Add(1)
						go func(i int) {
							defer wg.Done()
							<-start
							twins[i] = g.run(rp)
						}(i)
					}
					gs = append(gs, g)
				}
				close(start)
				wg.Wait()
				for i, g := range gs {
					snaps[i][1] = g.snapshot()
				}
				runtime.GOMAXPROCS(prev)
				for i := 0; i < n; i++ {
					// alone: same op against a private copy of the pre-populated storage
					alone := &lockedStore{m: map[string]*webauthn.Credential{}}
					for _, m := range pre {
						id := unhx(m["id"].(string))
						alone.m[string(id)] = &webauthn.Credential{ID: id, OwnerID: unhx(m["owner"].(string)), PublicKey: unhx(m["pk"].(string))}
					}
					ra := goCeremonyFromOp(ops[i]).run(webauthn.NewRelyingParty(origin, alone))
					class := fmt.Sprintf("n%d-procs%d", n, procs)
					after := goCeremonySnapshotAfter(snaps, i)
					c.Compare("concurrent", M{"op": "concurrent", "round": round, "i": i, "ceremony": ops[i]}, M{"result": results[i], "inputsChanged": after}, M{"result": ra, "inputsChanged": false}, class, true)
					if twins[i] != nil {
						c.Compare("concurrent.twin", M{"op": "concurrent.twin", "round": round, "i": i, "ceremony": ops[i]}, M{"result": twins[i]}, M{"result": ra}, class, true)
					}
					// the model's sequential verdict for the same ceremony against the same storage
					mop := M{}
					for k, v := range ops[i] {
						mop[k] = v
					}
					mop["store"] = pre
					m := c.Call(mop)
					if um, _ := m["unmodelled"].(bool); !um {
						c.Compare("concurrent.model", mop, M{"ok": results[i]["ok"]}, M{"ok": m["ok"]}, class, true)
					}
				}
			}
		}},
		Stream{"globals.unchanged", func(c *Ctx) {
			// the package-level tables are the same after a batch of ceremonies of every format
			before := fmt.Sprintf("%#v|%#v|%d", webauthn.AllAttestationFormats, webauthn.AllAttestationTypes, len(tpmVendors()))
			vend := tpmVendorSnapshot()
			for i := 0; i < c.N(3, 50); i++ {
				for _, f := range allFormats {
					var pre []M
					_ = pre
					s := newRegSpec(c.R, f, pick(c.R, credAlgsFor(f)))
					s.AttAlg = pick(c.R, attAlgsFor(f))
					op := buildRegistration(c.R, s).Op()
					runRegisterImpl(op)
				}
				// and of deviating ones that reach the tables by other paths: TPM manufacturer ids that are not registered (among them registered
				// names spelt with the other padding byte), policies naming unknown formats and types
				for v := 0; v < 10; v++ {
					s := newRegSpec(c.R, "tpm", pick(c.R, credAlgsFor("tpm")))
					s.AttAlg = pick(c.R, attAlgsFor("tpm"))
					s.Dev["tpm.sanUnknownVendor"] = true
					op := buildRegistration(c.R, s).Op()
					op["_dev"] = "tpm.sanUnknownVendor"
					runRegisterImpl(op)
					if !reflect.DeepEqual(vend, tpmVendorSnapshot()) {
						c.Compare("globals.unchanged", op, M{"vendorRegistrySame": false}, M{"vendorRegistrySame": true}, "tables/after-tpm", true)
						break
					}
				}
			}
			after := fmt.Sprintf("%#v|%#v|%d", webauthn.AllAttestationFormats, webauthn.AllAttestationTypes, len(tpmVendors()))
			c.Compare("globals.unchanged", M{"op": "globals"}, M{"same": before == after && reflect.DeepEqual(vend, tpmVendorSnapshot())}, M{"same": true}, "tables", true)
			c.Compare("globals.unchanged", M{"op": "globals2"}, M{"same": before == after}, M{"same": true}, "tables", true)
		}},
	)
}

func goCeremonySnapshotAfter(snaps [][2]string, i int) bool {
	return snaps[i][1] != "" && snaps[i][0] != snaps[i][1]
}
