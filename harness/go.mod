module verif/harness

go 1.22

require (
	github.com/fxamacker/cbor/v2 v2.7.0
	github.com/go-jose/go-jose/v3 v3.0.3
	github.com/google/go-tpm v0.9.1
	github.com/google/uuid v1.6.0
	github.com/pomerium/webauthn v0.0.0
	golang.org/x/crypto v0.19.0
)

require (
	github.com/x448/float16 v0.8.4 // indirect
	golang.org/x/sys v0.17.0 // indirect
)

replace github.com/pomerium/webauthn => /repo
