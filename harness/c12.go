package main

import (
	"encoding/asn1"
	"math/big"
	"crypto"
	"crypto/x509"
	"fmt"

	"github.com/pomerium/webauthn/cose"
)

func init() {
	// numeric ids the Lean Spec uses must be Go's
	if crypto.SHA1 != 3 || crypto.SHA256 != 5 || crypto.SHA384 != 6 || crypto.SHA512 != 7 ||
		x509.SHA1WithRSA != 3 || x509.SHA256WithRSA != 4 || x509.SHA384WithRSA != 5 || x509.SHA512WithRSA != 6 ||
		x509.ECDSAWithSHA256 != 10 || x509.ECDSAWithSHA384 != 11 || x509.ECDSAWithSHA512 != 12 ||
		x509.SHA256WithRSAPSS != 13 || x509.SHA384WithRSAPSS != 14 || x509.SHA512WithRSAPSS != 15 || x509.PureEd25519 != 16 {
		panic("Go's numeric ids differ from Spec/Cose.lean")
	}
	executors["alg.tables"] = func(c *Ctx, stream string, op M) {
		a := num(op["alg"])
		model := c.Call(op)
		impl := M{"hash": int64(cose.Algorithm(a).Hash()), "x509": int64(cose.Algorithm(a).X509SignatureAlgorithm())}
		spec := M{"hash": model["specHash"], "x509": model["specX509"]}
		class := "other-integer"
		if num(model["specX509"]) != 0 {
			class = "registered"
		}
		// the property: implementation = standard's table
		c.Compare(stream, op, impl, spec, class, class == "registered" || a%97 == 0)
		// the tie: regenerated model table = implementation
		c.Compare(stream+".model", op, impl, M{"hash": model["hash"], "x509": model["x509"]}, class, false)
	}
	executors["cose.verify"] = func(c *Ctx, stream string, op M) {
		key, data, sig := unhx(op["key"].(string)), unhx(op["data"].(string)), unhx(op["sig"].(string))
		model := c.Call(op)
		if um, _ := model["unmodelled"].(bool); um {
			c.Unmodelled(stream)
			return
		}
		delete(model, "id")
		impl := guard(func() M {
			k, _, err := cose.UnmarshalPublicKey(key)
			if err != nil {
				return M{"parsed": false, "verified": false}
			}
			return M{"parsed": true, "verified": k.Verify(data, sig) == nil}
		})
		class, _ := op["class"].(string)
		c.Compare(stream, op, impl, model, class, true)
		if exp, ok := op["expect"].(bool); ok {
			// ground truth known by construction (reference signer = Go standard library)
			c.Compare(stream+".truth", op, M{"verified": impl["verified"]}, M{"verified": exp}, class, true)
		}
	}
}

func init() {
	register("C12",
		Stream{"alg.tables", func(c *Ctx) {
			for a := -70000; a <= 1000; a++ {
				executors["alg.tables"](c, "alg.tables", M{"op": "alg.tables", "alg": a})
			}
			for _, a := range []int64{-1 << 31, 1 << 31, -1 << 62, 1 << 62, -65536, -65534, 65535, 7, 8, 35, 257, 1<<63 - 1, -1 << 63} {
				executors["alg.tables"](c, "alg.tables", M{"op": "alg.tables", "alg": a})
			}
			// integers that agree with a registered identifier in their low 8 / 16 / 32 bits, or in magnitude (a table keyed by a narrower
			// integer type, or by the absolute value, maps them like the identifier)
			for _, id := range []int64{-7, -8, -35, -36, -37, -38, -39, -257, -258, -259, -65535} {
				for _, a := range []int64{id + 1<<32, id - 1<<32, id + 1<<33, id + 1<<16, id - 1<<16, id + 1<<8, id - 1<<8, -id, id + (1<<63 - 1) + 1, id + 1<<48} {
					executors["alg.tables"](c, "alg.tables", M{"op": "alg.tables", "alg": a})
				}
			}
			c.Res.mu.Lock()
			c.Res.Exhaustive = append(c.Res.Exhaustive, "Hash/X509SignatureAlgorithm on every integer in [-70000, 1000]")
			c.Res.mu.Unlock()
		}},
		Stream{"verify.cross", func(c *Ctx) {
			r := c.R
			lens := []int{0, 1, 55, 56, 64, 1000, 5000}
			reps := c.N(1, 6)
			for rep := 0; rep < reps; rep++ {
				for _, signAlg := range allAlgs {
					signer := genKeyPair(r, signAlg)
					for _, verAlg := range allAlgs {
						if kindOfAlg(signAlg) != kindOfAlg(verAlg) {
							continue
						}
						msg := r.Bytes(pick(r, lens))
						sig := signer.SignAs(signAlg, msg)
						// verifier key = same key material announced with verAlg
						vk := *signer
						vk.Alg = verAlg
						expect := signAlg == verAlg
						op := M{"op": "cose.verify", "key": hx(vk.COSE(r.Bool())), "data": hx(msg), "sig": hx(sig),
							"class": fmt.Sprintf("sign%d-verify%d", signAlg, verAlg), "expect": expect}
						executors["cose.verify"](c, "verify.cross", op)
						// other message
						op2 := M{"op": "cose.verify", "key": op["key"], "data": hx(append([]byte{1}, msg...)), "sig": hx(sig),
							"class": "other-message", "expect": false}
						executors["cose.verify"](c, "verify.cross", op2)
						// other key of the same kind
						other := genKeyPair(r, verAlg)
						if other.Kind == "rsa" && other.RSA == signer.RSA {
							continue
						}
						op3 := M{"op": "cose.verify", "key": hx(other.COSE(true)), "data": hx(msg), "sig": hx(sig),
							"class": "other-key", "expect": false}
						executors["cose.verify"](c, "verify.cross", op3)
					}
				}
			}
		}},
		Stream{"verify.lengths", func(c *Ctx) {
			// every algorithm on messages of every boundary length, empty to multi-kilobyte (nil and empty both): genuine signatures verify
			r := c.R
			lens := []int{0, 1, 2, 31, 32, 33, 55, 56, 63, 64, 65, 111, 112, 127, 128, 129, 1000, 5000, 70000}
			for _, alg := range allAlgs {
				kp := genKeyPair(r, alg)
				key := hx(kp.COSE(true))
				for _, l := range lens {
					msg := r.Bytes(l)
					op := M{"op": "cose.verify", "key": key, "data": hx(msg), "sig": hx(kp.Sign(msg)), "class": fmt.Sprintf("alg%d-len%d", alg, l), "expect": true}
					executors["cose.verify"](c, "verify.lengths", op)
				}
			}
		}},
		Stream{"verify.signatureShapes", func(c *Ctx) {
			// a signature is valid in exactly one spelling: DER ECDSA without anything after or inside it, RSA of exactly the modulus length
			// (also when its first octet is zero), Ed25519 of exactly 64 bytes
			r := c.R
			for _, alg := range allAlgs {
				kp := genKeyPair(r, alg)
				key := hx(kp.COSE(true))
				run := func(class string, msg, sig []byte, expect bool) {
					executors["cose.verify"](c, "verify.signatureShapes", M{"op": "cose.verify", "key": key, "data": hx(msg), "sig": hx(sig),
						"class": fmt.Sprintf("alg%d-%s", alg, class), "expect": expect})
				}
				msg := r.Bytes(40)
				sig := kp.Sign(msg)
				run("genuine", msg, sig, true)
				run("trailing-00", msg, append(append([]byte{}, sig...), 0), false)
				run("trailing-garbage", msg, append(append([]byte{}, sig...), r.Bytes(1+r.Intn(16))...), false)
				run("leading-00", msg, append([]byte{0}, sig...), false)
				run("truncated", msg, sig[:len(sig)-1], false)
				run("empty", msg, nil, false)
				if kp.Kind == "ec" && len(sig) > 8 && sig[0] == 0x30 && sig[1] < 0x7d {
					// SEQUENCE{r, s, INTEGER 1}: an extra element inside the sequence
					ext := append([]byte{}, sig...)
					ext = append(ext, 0x02, 0x01, 0x01)
					ext[1] += 3
					run("extra-element", msg, ext, false)
					// non-minimal length form of the outer SEQUENCE
					nm := append([]byte{0x30, 0x81, sig[1]}, sig[2:]...)
					run("long-form-length", msg, nm, false)
				}
				if kp.Kind == "ec" {
					// the same (r, s) pair in the fixed-width r || s spelling (IEEE P1363 / JWS / WebCrypto), in the curve's width and in the
					// other curves' widths: COSE signatures of this library are ASN.1 DER, nothing else
					var parsed struct{ R, S *big.Int }
					if _, err := asn1.Unmarshal(sig, &parsed); err == nil {
						for _, w := range []int{(kp.EC.Curve.Params().BitSize + 7) / 8, 32, 48, 66} {
							if parsed.R.BitLen() <= 8*w && parsed.S.BitLen() <= 8*w {
								run(fmt.Sprintf("raw-r-s-%d", w), msg, append(fixed(parsed.R, w), fixed(parsed.S, w)...), false)
							}
						}
					}
				}
				if kp.Kind == "rsa" {
					// genuine signatures whose first octet is zero (about one in 256): sign until a few are found
					found := 0
					for i := 0; i < c.N(1500, 6000) && found < 3; i++ {
						m := r.Bytes(24)
						s := kp.Sign(m)
						if s[0] == 0 {
							found++
							run("genuine-leading-zero-octet", m, s, true)
							run("leading-zero-octet-stripped", m, s[1:], false)
						}
					}
				}
			}
		}},
		Stream{"verify.bitflips", func(c *Ctx) {
			r := c.R
			for _, alg := range allAlgs {
				kp := genKeyPair(r, alg)
				msg := r.Bytes(40)
				sig := kp.Sign(msg)
				key := hx(kp.COSE(true))
				var positions []int
				if c.Thorough() && len(sig) <= 160 {
					for i := 0; i < len(sig)*8; i++ {
						positions = append(positions, i)
					}
				} else {
					for i := 0; i < c.N(24, 256); i++ {
						positions = append(positions, r.Intn(len(sig)*8))
					}
				}
				for _, p := range positions {
					s2 := append([]byte{}, sig...)
					s2[p/8] ^= 1 << uint(p%8)
					op := M{"op": "cose.verify", "key": key, "data": hx(msg), "sig": hx(s2), "class": fmt.Sprintf("bitflip-alg%d", alg)}
					// ECDSA/DER: a flipped bit cannot yield another valid signature except with negligible probability;
					// the truth column is only asserted for schemes where every bit is covered by the verification equation
					if kp.Kind != "ec" {
						op["expect"] = false
					}
					executors["cose.verify"](c, "verify.bitflips", op)
				}
				// empty and truncated signatures
				for _, s2 := range [][]byte{nil, sig[:len(sig)/2], append(append([]byte{}, sig...), 0)} {
					op := M{"op": "cose.verify", "key": key, "data": hx(msg), "sig": hx(s2), "class": "malformed-sig", "expect": false}
					executors["cose.verify"](c, "verify.bitflips", op)
				}
			}
		}},
	)
}
