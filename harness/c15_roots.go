package main

import (
	"encoding/base64"
	"encoding/pem"
	"fmt"
	"strings"
	"time"

	"github.com/pomerium/webauthn/fido"
)

// MetadataStatement.ParseAttestationRootCertificates against Fido.parseRootCertificates (Theorems/C15Roots.lean): entry by entry,
// blanks removed, padded standard base64, x509.ParseCertificate; one bad entry fails the call; certificates come back in order.
// The x509.ParseCertificate step is the model's x509Parse ask (answered by the harness from crypto/x509), so what the stream compares is
// the text handling, the order and the all-or-nothing rule; each case also carries the expected outcome from how it was built.

func init() {
	executors["fido.rootCerts"] = func(c *Ctx, stream string, op M) {
		model := c.Call(M{"op": "fido.rootCerts", "entries": op["entries"]})
		delete(model, "id")
		var entries []string
		for _, e := range op["entries"].([]any) {
			entries = append(entries, string(unhx(e.(string))))
		}
		impl := guard(func() M {
			ms := fido.MetadataStatement{AttestationRootCertificates: entries}
			certs, err := ms.ParseAttestationRootCertificates()
			if err != nil {
				return M{"ok": false}
			}
			ders := []any{}
			for _, ct := range certs {
				ders = append(ders, hx(ct.Raw))
			}
			return M{"ok": true, "count": int64(len(certs)), "ders": ders}
		})
		if ok, _ := model["ok"].(bool); ok {
			model["count"] = int64(num(model["count"]))
			if model["ders"] == nil {
				model["ders"] = []any{}
			}
		}
		class := "reject"
		if ok, _ := impl["ok"].(bool); ok {
			class = "accept"
		}
		if dv, ok := op["_dev"].(string); ok {
			class += "/" + dv
		}
		c.Compare(stream, op, impl, model, class, len(entries) > 0)
		if ex, ok := op["_expect"].(bool); ok {
			c.Compare(stream+".truth", op, M{"ok": impl["ok"]}, M{"ok": ex}, class, len(entries) > 0)
		}
	}

	blanks := []string{" ", "\r", "\n", "\t", "\r\n", "  ", "\n\n"}
	withBlanks := func(r *RNG, s string, every int) string {
		var b strings.Builder
		for i := 0; i < len(s); i++ {
			if every > 0 && i%every == 0 && r.P(1, 2) {
				b.WriteString(pick(r, blanks))
			}
			b.WriteByte(s[i])
		}
		if r.Bool() {
			b.WriteString(pick(r, blanks))
		}
		return b.String()
	}

	register("C15",
		Stream{"adjacent.roots.entries", func(c *Ctx) {
			r := c.R
			// a small stock of certificates of every key kind (and lengths ≡ 0, 1, 2 mod 3, so that every padding form occurs)
			var stock [][]byte
			for len(stock) < 9 {
				p := newPKI(r, 3, false)
				stock = append(stock, p.root, p.inter, p.leaf)
			}
			for want := 0; want < 3; want++ {
				for tries := 0; tries < 200; tries++ {
					k := genKeyPairOnCurve(r, algES256, 1, false)
					d := issue(r, strings.Repeat("n", 1+r.Intn(5)), k.Public(), nil, k, true, time.Now().Add(time.Hour), true)
					if len(d)%3 == want {
						stock = append(stock, d)
						break
					}
				}
			}
			std := func(d []byte) string { return base64.StdEncoding.EncodeToString(d) }
			n := c.N(1500, 40000)
			for i := 0; i < n; i++ {
				cnt := pick(r, []int{1, 1, 2, 3, 5})
				var entries []string
				for k := 0; k < cnt; k++ {
					e := std(pick(r, stock))
					switch r.Intn(4) {
					case 0:
						e = withBlanks(r, e, 1+r.Intn(8))
					case 1:
						e = withBlanks(r, e, 64) // the line-wrapped form of the metadata service
					}
					entries = append(entries, e)
				}
				dev, expect := "honest", true
				at := r.Intn(cnt)
				der := pick(r, stock)
				switch i % 16 {
				case 1:
					dev, expect = "emptyList", true
					entries = nil
				case 2: // padding dropped (RawStdEncoding's form)
					dev = "unpadded"
					for len(der)%3 == 0 {
						der = pick(r, stock)
					}
					entries[at], expect = base64.RawStdEncoding.EncodeToString(der), false
				case 3: // the URL alphabet, padded
					dev = "urlAlphabet"
					e := base64.URLEncoding.EncodeToString(der)
					entries[at], expect = e, !strings.ContainsAny(e, "-_")
				case 4: // blanks of other kinds are not removed
					dev, expect = "otherBlank", false
					e := std(der)
					p := r.Intn(len(e) + 1)
					entries[at] = e[:p] + pick(r, []string{"\v", "\f", " ", " ", "\x00", "\u0085"}) + e[p:]
				case 5: // bytes after the padding / after the last quantum
					dev, expect = "trailingText", false
					entries[at] = std(der) + pick(r, []string{"=", "A", "AAAA", "==", "."})
				case 6: // not a certificate
					dev, expect = "notCertificate", false
					entries[at] = std(r.Bytes(1 + r.Intn(200)))
				case 7: // certificate followed by further bytes
					dev, expect = "derTrailing", false
					entries[at] = std(append(append([]byte{}, der...), r.Bytes(1+r.Intn(4))...))
				case 8: // truncated certificate
					dev, expect = "derTruncated", false
					entries[at] = std(der[:r.Intn(len(der))])
				case 9: // an empty entry / an entry of blanks only
					dev, expect = "emptyEntry", false
					entries[at] = pick(r, []string{"", " ", "\r\n", "\t \n"})
				case 10: // PEM armour
					dev, expect = "pem", false
					entries[at] = string(pem.EncodeToMemory(&pem.Block{Type: "CERTIFICATE", Bytes: der}))
				case 11: // the same certificate several times: kept, in order
					dev, expect = "repeated", true
					entries = append(entries, entries[at], entries[0])
				case 12: // padding characters inside
					dev, expect = "paddingInside", false
					e := std(der)
					p := 4 * (1 + r.Intn(len(e)/4-1))
					entries[at] = e[:p] + pick(r, []string{"=", "==", "===="}) + e[p:]
				case 13: // blanks inside the padding
					dev = "blankInPadding"
					for len(der)%3 != 1 {
						der = pick(r, stock)
					}
					e := std(der)
					entries[at], expect = e[:len(e)-1]+pick(r, blanks)+"=", true
				case 14: // one character changed to one outside every alphabet
					dev, expect = "foreignCharacter", false
					e := []byte(std(der))
					e[r.Intn(len(e))] = pick(r, []byte{'*', '!', '~', '#', '%', '@', ',', ';', ':', '"'})
					entries[at] = string(e)
				}
				hexed := []any{}
				for _, e := range entries {
					hexed = append(hexed, hx([]byte(e)))
				}
				executors["fido.rootCerts"](c, "adjacent.roots.entries", M{"op": "fido.rootCerts", "entries": hexed, "_dev": fmt.Sprintf("%s/%d", dev, len(entries)), "_expect": expect})
			}
		}},
		Stream{"adjacent.roots.mutated", func(c *Ctx) {
			r := c.R
			p := newPKI(r, 3, false)
			n := c.N(600, 20000)
			for i := 0; i < n; i++ {
				e := []byte(base64.StdEncoding.EncodeToString(pick(r, [][]byte{p.root, p.inter, p.leaf})))
				e = mutate(r, e)
				executors["fido.rootCerts"](c, "adjacent.roots.mutated", M{"op": "fido.rootCerts", "entries": []any{hx(e)}, "_dev": "mutated"})
			}
		}},
	)
}
