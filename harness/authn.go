package main

import (
	"crypto"
	"crypto/ecdsa"
	"crypto/ed25519"
	"crypto/elliptic"
	"crypto/rand"
	"crypto/rsa"
	"crypto/sha256"
	"crypto/x509"
	"crypto/x509/pkix"
	"encoding/asn1"
	"encoding/base64"
	"encoding/binary"
	"encoding/json"
	"fmt"
	"math/big"
	"sort"
	"time"

	"github.com/google/go-tpm/legacy/tpm2"
	"github.com/google/go-tpm/tpmutil"
)

// ---------- client data ----------

type ClientDataSpec struct {
	Type      string
	Challenge string
	Origin    string
	Extra     M    // additional members (crossOrigin, tokenBinding, unknown)
	Shuffle   bool // member order
	Absent    map[string]string // member name → "omit" (not written) or "null" (written as null: encoding/json leaves the member as it is)
}

func (s ClientDataSpec) JSON(r *RNG) []byte {
	m := M{"type": s.Type, "challenge": s.Challenge, "origin": s.Origin}
	for k, v := range s.Extra {
		m[k] = v
	}
	for k, how := range s.Absent {
		if how == "null" {
			m[k] = nil
		} else {
			delete(m, k)
		}
	}
	keys := make([]string, 0, len(m))
	for k := range m {
		keys = append(keys, k)
	}
	sort.Strings(keys)
	if s.Shuffle && r != nil {
		keys = permute(r, keys)
	}
	out := []byte{'{'}
	for i, k := range keys {
		if i > 0 {
			out = append(out, ',')
		}
		kb, _ := json.Marshal(k)
		vb, _ := json.Marshal(m[k])
		out = append(out, kb...)
		out = append(out, ':')
		out = append(out, vb...)
	}
	return append(out, '}')
}

func b64u(b []byte) string { return base64.RawURLEncoding.EncodeToString(b) }

// ---------- authenticator data ----------

type AuthDataSpec struct {
	RPIDHash []byte
	Flags    byte
	Counter  uint32
	AAGUID   []byte
	CredID   []byte
	Key      []byte // COSE bytes
	Ext      []byte
}

func (a AuthDataSpec) Bytes() []byte {
	b := append([]byte{}, a.RPIDHash...)
	b = append(b, a.Flags)
	var c [4]byte
	binary.BigEndian.PutUint32(c[:], a.Counter)
	b = append(b, c[:]...)
	if a.Flags&0x40 != 0 {
		b = append(b, a.AAGUID...)
		b = append(b, byte(len(a.CredID)>>8), byte(len(a.CredID)))
		b = append(b, a.CredID...)
		b = append(b, a.Key...)
	}
	if a.Flags&0x80 != 0 {
		b = append(b, a.Ext...)
	}
	return b
}

func sha(b []byte) []byte { h := sha256.Sum256(b); return h[:] }

// ---------- certificates ----------

var caKey *ecdsa.PrivateKey
var caCert *x509.Certificate

func init() {
	caKey, _ = ecdsa.GenerateKey(elliptic.P256(), rand.Reader)
	tmpl := &x509.Certificate{SerialNumber: big.NewInt(1), Subject: pkix.Name{CommonName: "harness attestation CA", Organization: []string{"verif"}},
		NotBefore: time.Now().Add(-time.Hour), NotAfter: time.Now().Add(240 * time.Hour), IsCA: true, BasicConstraintsValid: true,
		KeyUsage: x509.KeyUsageCertSign}
	der, err := x509.CreateCertificate(rand.Reader, tmpl, tmpl, &caKey.PublicKey, caKey)
	if err != nil {
		panic(err)
	}
	caCert, _ = x509.ParseCertificate(der)
}

type CertSpec struct {
	Subject    pkix.Name
	IsCA       bool
	Version1   bool // re-encode as X.509 v1 (drops extensions)
	Extensions []pkix.Extension
	UnknownEKU []asn1.ObjectIdentifier
	EKU        []x509.ExtKeyUsage // registered extended key usages (serverAuth, anyExtendedKeyUsage, ...)
	DNSNames   []string
}

// makeCert issues a certificate for pub under the harness CA.
func makeCert(pub crypto.PublicKey, s CertSpec) []byte {
	tmpl := &x509.Certificate{SerialNumber: big.NewInt(time.Now().UnixNano()), Subject: s.Subject,
		NotBefore: time.Now().Add(-time.Hour), NotAfter: time.Now().Add(240 * time.Hour),
		IsCA: s.IsCA, BasicConstraintsValid: true, ExtraExtensions: s.Extensions, UnknownExtKeyUsage: s.UnknownEKU, ExtKeyUsage: s.EKU, DNSNames: s.DNSNames}
	if s.IsCA {
		tmpl.KeyUsage = x509.KeyUsageCertSign
	}
	der, err := x509.CreateCertificate(rand.Reader, tmpl, caCert, pub, caKey)
	if err != nil {
		panic(err)
	}
	if s.Version1 {
		der = toV1(der)
	}
	return der
}

// toV1 rewrites a certificate as version 1: removes the [0] version and [3] extensions of TBSCertificate and re-signs.
func toV1(der []byte) []byte {
	var c struct {
		TBS asn1.RawValue
		Alg pkix.AlgorithmIdentifier
		Sig asn1.BitString
	}
	if _, err := asn1.Unmarshal(der, &c); err != nil {
		panic(err)
	}
	var elems []asn1.RawValue
	rest := c.TBS.Bytes
	for len(rest) > 0 {
		var e asn1.RawValue
		var err error
		rest, err = asn1.Unmarshal(rest, &e)
		if err != nil {
			panic(err)
		}
		if e.Class == asn1.ClassContextSpecific && (e.Tag == 0 || e.Tag == 3) {
			continue
		}
		elems = append(elems, e)
	}
	var body []byte
	for _, e := range elems {
		body = append(body, e.FullBytes...)
	}
	tbs, _ := asn1.Marshal(asn1.RawValue{Class: asn1.ClassUniversal, Tag: asn1.TagSequence, IsCompound: true, Bytes: body})
	digest := sha256.Sum256(tbs)
	sig, err := ecdsa.SignASN1(rand.Reader, caKey, digest[:])
	if err != nil {
		panic(err)
	}
	out, err := asn1.Marshal(struct {
		TBS asn1.RawValue
		Alg pkix.AlgorithmIdentifier
		Sig asn1.BitString
	}{asn1.RawValue{FullBytes: tbs}, c.Alg, asn1.BitString{Bytes: sig, BitLength: len(sig) * 8}})
	if err != nil {
		panic(err)
	}
	return out
}

var (
	oidAAGUIDExt   = asn1.ObjectIdentifier{1, 3, 6, 1, 4, 1, 45724, 1, 1, 4}
	oidAIK         = asn1.ObjectIdentifier{2, 23, 133, 8, 3}
	oidAndroidKeyX = asn1.ObjectIdentifier{1, 3, 6, 1, 4, 1, 11129, 2, 1, 17}
	oidAppleNonceX = asn1.ObjectIdentifier{1, 2, 840, 113635, 100, 8, 2}
	oidSANExt      = asn1.ObjectIdentifier{2, 5, 29, 17}
	oidTPMMfr      = asn1.ObjectIdentifier{2, 23, 133, 2, 1}
	oidTPMModel    = asn1.ObjectIdentifier{2, 23, 133, 2, 2}
	oidTPMVersion  = asn1.ObjectIdentifier{2, 23, 133, 2, 3}
)

func packedSubject() pkix.Name {
	return pkix.Name{Country: []string{"US"}, Organization: []string{"Verif Authenticators"}, OrganizationalUnit: []string{"Authenticator Attestation"}, CommonName: "Verif Batch 1"}
}

func aaguidExtension(aaguid []byte, critical bool) pkix.Extension {
	v, _ := asn1.Marshal(aaguid)
	return pkix.Extension{Id: oidAAGUIDExt, Critical: critical, Value: v}
}

// tpmSAN builds the SubjectAltName extension with a directoryName carrying the TPM attributes.
type tpmAttr struct {
	OID asn1.ObjectIdentifier
	Val string
}

func tpmSANValue(attrs []tpmAttr, class, tag int, before, after int) []byte {
	var rdns pkix.RDNSequence
	for _, a := range attrs {
		rdns = append(rdns, pkix.RelativeDistinguishedNameSET{{Type: a.OID, Value: a.Val}})
	}
	name, err := asn1.Marshal(rdns)
	if err != nil {
		panic(err)
	}
	var names []asn1.RawValue
	for i := 0; i < before; i++ {
		names = append(names, asn1.RawValue{Class: asn1.ClassContextSpecific, Tag: 2, Bytes: []byte("before.example")})
	}
	names = append(names, asn1.RawValue{Class: class, Tag: tag, IsCompound: true, Bytes: name})
	for i := 0; i < after; i++ {
		names = append(names, asn1.RawValue{Class: asn1.ClassContextSpecific, Tag: 2, Bytes: []byte("after.example")})
	}
	v, err := asn1.Marshal(names)
	if err != nil {
		panic(err)
	}
	return v
}

func tpmSAN(attrs []tpmAttr) pkix.Extension {
	return pkix.Extension{Id: oidSANExt, Critical: true, Value: tpmSANValue(attrs, asn1.ClassContextSpecific, 4, 0, 0)}
}

func honestTPMAttrs(r *RNG) []tpmAttr {
	vendors := []string{"id:414D4400", "id:494E5443", "id:4D534654", "id:FFFFF1D0", "id:474F4F47", "id:53544D20"}
	return []tpmAttr{{oidTPMMfr, pick(r, vendors)}, {oidTPMModel, "NPCT6xx"}, {oidTPMVersion, "id:13"}}
}

// ---------- TPM structures ----------

func tpmPublicFor(k *KeyPair, nameAlg tpm2.Algorithm) tpm2.Public {
	switch k.Kind {
	case "rsa":
		return tpm2.Public{Type: tpm2.AlgRSA, NameAlg: nameAlg, Attributes: tpm2.FlagSignerDefault,
			RSAParameters: &tpm2.RSAParams{Sign: &tpm2.SigScheme{Alg: tpm2.AlgRSASSA, Hash: tpm2.AlgSHA256}, KeyBits: uint16(k.RSA.N.BitLen()),
				ExponentRaw: uint32(k.RSA.E), ModulusRaw: k.RSA.N.Bytes()}}
	default:
		cid := map[int]tpm2.EllipticCurve{1: tpm2.CurveNISTP256, 2: tpm2.CurveNISTP384, 3: tpm2.CurveNISTP521}[k.Crv]
		size := (k.EC.Curve.Params().BitSize + 7) / 8
		return tpm2.Public{Type: tpm2.AlgECC, NameAlg: nameAlg, Attributes: tpm2.FlagSignerDefault,
			ECCParameters: &tpm2.ECCParams{Sign: &tpm2.SigScheme{Alg: tpm2.AlgECDSA, Hash: tpm2.AlgSHA256}, CurveID: cid,
				Point: tpm2.ECPoint{XRaw: fixed(k.EC.X, size), YRaw: fixed(k.EC.Y, size)}}}
	}
}

func tpmHash(alg tpm2.Algorithm, data []byte) []byte {
	h, err := alg.Hash()
	if err != nil {
		panic(err)
	}
	hh := h.New()
	hh.Write(data)
	return hh.Sum(nil)
}

func tpmCertInfo(extraData []byte, name tpm2.Name, magic uint32, typ tpmutil.Tag) []byte {
	ad := tpm2.AttestationData{Magic: magic, Type: typ, QualifiedSigner: tpm2.Name{Digest: &tpm2.HashValue{Alg: tpm2.AlgSHA256, Value: make([]byte, 32)}},
		ExtraData: extraData, ClockInfo: tpm2.ClockInfo{Clock: 1, ResetCount: 1, RestartCount: 1, Safe: 1}, FirmwareVersion: 1}
	if typ == tpm2.TagAttestCertify {
		ad.AttestedCertifyInfo = &tpm2.CertifyInfo{Name: name, QualifiedName: tpm2.Name{Digest: &tpm2.HashValue{Alg: tpm2.AlgSHA256, Value: make([]byte, 32)}}}
	} else {
		ad.AttestedCreationInfo = &tpm2.CreationInfo{Name: name, OpaqueDigest: make([]byte, 32)}
	}
	b, err := ad.Encode()
	if err != nil {
		panic(fmt.Sprintf("encode certInfo: %v", err))
	}
	return b
}

// ---------- android key description ----------

func keyDescriptionDER(challenge []byte, swAll, teeAll bool, teeOrigin int, teePurpose []int, originInSW bool) []byte {
	kd := hKeyDescription{AttestationVersion: 3, KeyMasterVersion: 4, AttestationSecurityLevel: 1, KeyMasterSecurityLevel: 1,
		AttestationChallenge: challenge, UniqueID: []byte{}}
	kd.SoftwareEnforced.AllApplications = asn1.Flag(swAll)
	kd.SoftwareEnforced.CreationDateTime = 1700000000
	kd.TeeEnforced.AllApplications = asn1.Flag(teeAll)
	kd.TeeEnforced.Purpose = teePurpose
	kd.TeeEnforced.Algorithm = 3
	kd.TeeEnforced.KeySize = 256
	kd.TeeEnforced.Origin = teeOrigin
	if originInSW {
		kd.SoftwareEnforced.Origin = 0
	}
	b, err := asn1.Marshal(kd)
	if err != nil {
		panic(err)
	}
	return b
}

func appleNonceExt(nonce []byte) pkix.Extension {
	v, err := asn1.Marshal(struct {
		Nonce []byte `asn1:"tag:1,explicit"`
	}{nonce})
	if err != nil {
		panic(err)
	}
	return pkix.Extension{Id: oidAppleNonceX, Value: v}
}

var _ = ed25519.PublicKeySize
var _ = rsa.PSSSaltLengthAuto

type tpmutilH = tpmutil.Handle

func bigOne() *big.Int { return big.NewInt(time.Now().UnixNano()) }
