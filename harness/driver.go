package main

import (
	"bufio"
	"crypto/x509"
	"encoding/hex"
	"encoding/json"
	"fmt"
	"io"
	"os/exec"
)

// Driver is one wadriver process (the compiled Lean model) spoken to over pipes.
type Driver struct {
	cmd  *exec.Cmd
	in   io.WriteCloser
	out  *bufio.Reader
	Asks int
	// AskLog collects question/answer pairs of the current op (for replays)
	AskLog []json.RawMessage
	// Pools are the custom root pools of the current op (C15)
	Pools []*x509.CertPool
	// SawUnmodelled: an answer of the current op carried data the model does not reproduce (a time-typed attribute value in a
	// certificate's SAN directory name: time.Parse is not modelled); the op's result is then marked unmodelled
	SawUnmodelled bool
}

func StartDriver(path string) (*Driver, error) {
	cmd := exec.Command(path)
	in, err := cmd.StdinPipe()
	if err != nil {
		return nil, err
	}
	out, err := cmd.StdoutPipe()
	if err != nil {
		return nil, err
	}
	if err := cmd.Start(); err != nil {
		return nil, err
	}
	return &Driver{cmd: cmd, in: in, out: bufio.NewReaderSize(out, 1<<20)}, nil
}

func (d *Driver) Close() {
	d.in.Close()
	d.cmd.Wait()
}

type M = map[string]any

func hx(b []byte) string { return hex.EncodeToString(b) }
func unhx(s string) []byte {
	b, err := hex.DecodeString(s)
	if err != nil {
		panic("bad hex from driver: " + s)
	}
	return b
}

// Call sends one op and returns the driver's result, answering asks on the way.
func (d *Driver) Call(op M) (M, error) {
	line, err := json.Marshal(op)
	if err != nil {
		return nil, err
	}
	d.AskLog = d.AskLog[:0]
	d.SawUnmodelled = false
	if _, err := d.in.Write(append(line, '\n')); err != nil {
		return nil, err
	}
	for {
		resp, err := d.out.ReadBytes('\n')
		if err != nil {
			return nil, fmt.Errorf("driver died: %w", err)
		}
		var m M
		if err := json.Unmarshal(resp, &m); err != nil {
			return nil, fmt.Errorf("driver output not JSON: %s", resp)
		}
		if q, ok := m["ask"]; ok {
			d.Asks++
			ans := answerAsk(d, q.(string), m)
			al, _ := json.Marshal(M{"q": m, "a": ans})
			d.AskLog = append(d.AskLog, al)
			line, _ := json.Marshal(M{"ans": ans})
			if _, err := d.in.Write(append(line, '\n')); err != nil {
				return nil, err
			}
			continue
		}
		if e, ok := m["error"]; ok {
			// the model cannot process this op (for example: the regenerated schema no longer has the shape the op was written for).
			// That is a disagreement with an implementation that can, not a failure of the harness.
			return M{"model_error": fmt.Sprint(e)}, nil
		}
		if d.SawUnmodelled {
			m["unmodelled"] = true
		}
		return m, nil
	}
}

// num converts a JSON-ish number (int, int64, float64) to int64; ops may come from Go literals or from a replay file.
func num(v any) int64 {
	switch x := v.(type) {
	case int:
		return int64(x)
	case int64:
		return x
	case uint64:
		return int64(x)
	case float64:
		return int64(x)
	case json.Number:
		n, _ := x.Int64()
		return n
	}
	panic(fmt.Sprintf("not a number: %T", v))
}
