package main

import (
	"crypto"
	"crypto/ecdsa"
	"crypto/ed25519"
	"crypto/elliptic"
	"crypto/rand"
	"crypto/rsa"
	"crypto/sha1"
	"crypto/sha256"
	"crypto/sha512"
	"crypto/x509"
	_ "embed"
	"encoding/hex"
	"encoding/json"
	_ "golang.org/x/crypto/sha3" // registers crypto.SHA3_* so that TPM names tagged with SHA-3 algorithms decode (a relying party binary may well link it)
	"math/big"
)

//go:embed testdata/rsa_pool.json
var rsaPoolJSON []byte

var rsaPool []*rsa.PrivateKey

func init() {
	var ks []string
	if err := json.Unmarshal(rsaPoolJSON, &ks); err != nil {
		panic(err)
	}
	for _, h := range ks {
		der, _ := hex.DecodeString(h)
		k, err := x509.ParsePKCS1PrivateKey(der)
		if err != nil {
			panic(err)
		}
		rsaPool = append(rsaPool, k)
	}
}

// COSE algorithm identifiers (harness-local constants, from the IANA registry)
const (
	algES256 = -7
	algEdDSA = -8
	algES384 = -35
	algES512 = -36
	algPS256 = -37
	algPS384 = -38
	algPS512 = -39
	algRS256 = -257
	algRS384 = -258
	algRS512 = -259
	algRS1   = -65535
)

var allAlgs = []int{algES256, algES384, algES512, algEdDSA, algRS1, algRS256, algRS384, algRS512, algPS256, algPS384, algPS512}
var ecAlgs = []int{algES256, algES384, algES512}
var rsaAlgs = []int{algRS1, algRS256, algRS384, algRS512, algPS256, algPS384, algPS512}

func algHash(alg int) crypto.Hash {
	switch alg {
	case algRS1:
		return crypto.SHA1
	case algES256, algPS256, algRS256:
		return crypto.SHA256
	case algES384, algPS384, algRS384:
		return crypto.SHA384
	case algES512, algPS512, algRS512:
		return crypto.SHA512
	}
	return 0
}

func digestFor(h crypto.Hash, msg []byte) []byte {
	switch h {
	case crypto.SHA1:
		s := sha1.Sum(msg)
		return s[:]
	case crypto.SHA256:
		s := sha256.Sum256(msg)
		return s[:]
	case crypto.SHA384:
		s := sha512.Sum384(msg)
		return s[:]
	case crypto.SHA512:
		s := sha512.Sum512(msg)
		return s[:]
	}
	return msg
}

// KeyPair is an authenticator-side key with the COSE algorithm it announces.
type KeyPair struct {
	Kind string // "ec" | "ed" | "rsa"
	Alg  int
	Crv  int // COSE curve id for ec (1,2,3)
	EC   *ecdsa.PrivateKey
	Ed   ed25519.PrivateKey
	RSA  *rsa.PrivateKey
}

func curveOf(id int) elliptic.Curve {
	switch id {
	case 1:
		return elliptic.P256()
	case 2:
		return elliptic.P384()
	default:
		return elliptic.P521()
	}
}

// genEC derives an EC key deterministically from the PRNG. wantLeadingZero forces a coordinate whose
// big-endian form has a leading zero byte (i.e. is shorter than the field size).
func genEC(r *RNG, crv int, wantLeadingZero bool) *ecdsa.PrivateKey {
	c := curveOf(crv)
	n := c.Params().N
	size := (c.Params().BitSize + 7) / 8
	for {
		d := new(big.Int).SetBytes(r.Bytes(size + 8))
		d.Mod(d, new(big.Int).Sub(n, big.NewInt(1)))
		d.Add(d, big.NewInt(1))
		x, y := c.ScalarBaseMult(d.Bytes())
		if wantLeadingZero && len(x.Bytes()) == size && len(y.Bytes()) == size {
			if crv == 3 {
				// P-521 coordinates have 521 bits: top byte is 0 or 1; shorter-than-size is rare — accept top byte 0 only 1/2
				continue
			}
			continue
		}
		return &ecdsa.PrivateKey{PublicKey: ecdsa.PublicKey{Curve: c, X: x, Y: y}, D: d}
	}
}

func genKeyPair(r *RNG, alg int) *KeyPair {
	switch alg {
	case algES256, algES384, algES512:
		crv := 1 + r.Intn(3)
		return &KeyPair{Kind: "ec", Alg: alg, Crv: crv, EC: genEC(r, crv, r.P(1, 5))}
	case algEdDSA:
		return &KeyPair{Kind: "ed", Alg: alg, Ed: ed25519.NewKeyFromSeed(r.Bytes(32))}
	default:
		return &KeyPair{Kind: "rsa", Alg: alg, RSA: pick(r, rsaPool)}
	}
}

func genKeyPairOnCurve(r *RNG, alg, crv int, leadingZero bool) *KeyPair {
	return &KeyPair{Kind: "ec", Alg: alg, Crv: crv, EC: genEC(r, crv, leadingZero)}
}

func (k *KeyPair) Public() crypto.PublicKey {
	switch k.Kind {
	case "ec":
		return &k.EC.PublicKey
	case "ed":
		return k.Ed.Public()
	default:
		return &k.RSA.PublicKey
	}
}

// SignAs signs msg under the definition of COSE algorithm alg (which may differ from k.Alg: cross-product streams).
func (k *KeyPair) SignAs(alg int, msg []byte) []byte {
	if kindOfAlg(alg) != k.Kind {
		// an algorithm this kind of key cannot sign under (a combination of deviations): the key's own algorithm
		alg = k.Alg
	}
	h := algHash(alg)
	switch k.Kind {
	case "ec":
		sig, err := ecdsa.SignASN1(rand.Reader, k.EC, digestFor(h, msg))
		if err != nil {
			panic(err)
		}
		return sig
	case "ed":
		return ed25519.Sign(k.Ed, msg)
	default:
		var sig []byte
		var err error
		switch alg {
		case algPS256, algPS384, algPS512:
			sig, err = rsa.SignPSS(rand.Reader, k.RSA, h, digestFor(h, msg), &rsa.PSSOptions{SaltLength: rsa.PSSSaltLengthEqualsHash})
		default:
			sig, err = rsa.SignPKCS1v15(rand.Reader, k.RSA, h, digestFor(h, msg))
		}
		if err != nil {
			panic(err)
		}
		return sig
	}
}

func (k *KeyPair) Sign(msg []byte) []byte { return k.SignAs(k.Alg, msg) }

func fixed(b *big.Int, size int) []byte {
	out := make([]byte, size)
	b.FillBytes(out)
	return out
}

// COSE encodes the public key with the harness's own CBOR encoder. fixedWidth: EC coordinates padded to the field
// size (what authenticators send); otherwise minimal big-endian.
func (k *KeyPair) COSE(fixedWidth bool) []byte {
	switch k.Kind {
	case "ec":
		size := (k.EC.Curve.Params().BitSize + 7) / 8
		x, y := k.EC.X.Bytes(), k.EC.Y.Bytes()
		if fixedWidth {
			x, y = fixed(k.EC.X, size), fixed(k.EC.Y, size)
		}
		return cborMap(cborInt(1), cborInt(2), cborInt(3), cborInt(int64(k.Alg)), cborInt(-1), cborInt(int64(k.Crv)),
			cborInt(-2), cborBytes(x), cborInt(-3), cborBytes(y))
	case "ed":
		return cborMap(cborInt(1), cborInt(1), cborInt(3), cborInt(int64(k.Alg)), cborInt(-1), cborInt(6),
			cborInt(-2), cborBytes(k.Ed.Public().(ed25519.PublicKey)))
	default:
		return cborMap(cborInt(1), cborInt(3), cborInt(3), cborInt(int64(k.Alg)), cborInt(-1), cborBytes(k.RSA.N.Bytes()),
			cborInt(-2), cborBytes(big.NewInt(int64(k.RSA.E)).Bytes()))
	}
}

func kindOfAlg(alg int) string {
	switch alg {
	case algES256, algES384, algES512:
		return "ec"
	case algEdDSA:
		return "ed"
	}
	return "rsa"
}
